/-
  Proofs/ChunksTree — the chunk list the red-level `SyntaxText` computes for a view (walk the sub-tree,
  keep the tokens whose range meets the view's range, cut each) is the pure per-token cut of the node's
  token texts; with `Proofs/Chunks.cut_spec`: its concatenation is the slice of the node's text.
-/
import CstModel.Proofs.Chunks
import CstModel.Proofs.Walk
import CstModel.Props.C11
namespace Cst
open Red

mutual
/-- the token leaves of a sub-tree in source order, with their paths and start offsets -/
def leaves (p : Path) (o : Nat) : Green → List (Path × Nat × Green)
  | .tok id k key l => [(p, o, .tok id k key l)]
  | .node _ _ _ _ cs => leavesL p 0 o cs
def leavesL (p : Path) (i o : Nat) : List Green → List (Path × Nat × Green)
  | [] => []
  | c :: cs => leaves (p ++ [i]) o c ++ leavesL p (i + 1) (o + c.len) cs
end

def tokAt (root : Green) (q : Path) : Bool := Red.isToken ⟨root, []⟩ q

theorem enters_append (a b : List WE) : enters (a ++ b) = enters a ++ enters b := by
  induction a with
  | nil => rfl
  | cons e es ih => cases e <;> simp [enters, ih]

mutual
/-- the tokens among the entered positions of the walk are the leaves, in order -/
theorem enters_pre (root : Green) : (g : Green) → (p : Path) → (o : Nat) → Green.get root p = some g →
    (enters (C03.pre p g)).filter (tokAt root) = (leaves p o g).map (·.1)
  | .tok id k key l, p, o, hg => by
    simp [C03.pre, enters, leaves, tokAt, Red.isToken, Red.green, hg, Green.isNode]
  | .node id k l h cs, p, o, hg => by
    have hk := enters_preL root cs p 0 o (.node id k l h cs) hg (by simp [Green.children])
    simp only [C03.pre, enters, enters_append, List.filter_cons, tokAt, Red.isToken, Red.green, hg, Green.isNode, Bool.not_true,
      Bool.false_eq_true, ↓reduceIte, List.filter_append, List.filter_nil, List.append_nil, leaves]
    exact hk
theorem enters_preL (root : Green) : (cs : List Green) → (p : Path) → (i o : Nat) → (t : Green) →
    Green.get root p = some t → t.children.drop i = cs →
    (enters (C03.preL p i cs)).filter (tokAt root) = (leavesL p i o cs).map (·.1)
  | [], _, _, _, _, _, _ => by simp [C03.preL, enters, leavesL]
  | c :: cs, p, i, o, t, hg, hdrop => by
    have hci : t.children[i]? = some c := by
      have := congrArg List.head? hdrop; simpa [List.head?_drop] using this
    have hgc : Green.get root (p ++ [i]) = some c := C03.get_child root p t hg i c hci
    have hrest : t.children.drop (i + 1) = cs := by
      have := congrArg List.tail hdrop; simpa [List.tail_drop] using this
    simp only [C03.preL, enters_append, List.filter_append, leavesL, List.map_append]
    rw [enters_pre root c (p ++ [i]) o hgc, enters_preL root cs p (i + 1) (o + c.len) t hg hrest]
end

mutual
/-- every leaf is a token of the tree at its path, and its offset is the canonical one -/
theorem leaves_facts (root : Green) : (g : Green) → (p : Path) → (o : Nat) → Green.get root p = some g →
    canon root p = some o → ∀ x ∈ leaves p o g,
      Green.get root x.1 = some x.2.2 ∧ x.2.2.isNode = false ∧ canon root x.1 = some x.2.1
  | .tok id k key l, p, o, hg, hc => by
    intro x hx
    simp only [leaves, List.mem_singleton] at hx
    subst hx
    exact ⟨hg, rfl, hc⟩
  | .node id k l h cs, p, o, hg, hc => by
    intro x hx
    simp only [leaves] at hx
    exact leavesL_facts root cs p 0 o o (.node id k l h cs) hg hc (by simp [Green.children]) (by simp [offsetIn_zero]) x hx
theorem leavesL_facts (root : Green) : (cs : List Green) → (p : Path) → (i o base : Nat) → (t : Green) →
    Green.get root p = some t → canon root p = some base → t.children.drop i = cs →
    o = base + offsetIn t.children i → ∀ x ∈ leavesL p i o cs,
      Green.get root x.1 = some x.2.2 ∧ x.2.2.isNode = false ∧ canon root x.1 = some x.2.1
  | [], _, _, _, _, _, _, _, _, _ => by intro x hx; simp [leavesL] at hx
  | c :: cs, p, i, o, base, t, hg, hc, hdrop, ho => by
    intro x hx
    have hci : t.children[i]? = some c := by
      have := congrArg List.head? hdrop; simpa [List.head?_drop] using this
    have hgc : Green.get root (p ++ [i]) = some c := C03.get_child root p t hg i c hci
    have hrest : t.children.drop (i + 1) = cs := by
      have := congrArg List.tail hdrop; simpa [List.tail_drop] using this
    have hcc : canon root (p ++ [i]) = some o := by
      rw [canon_append_single root p i t c base hg hci hc, ho]
    simp only [leavesL, List.mem_append] at hx
    rcases hx with hx | hx
    · exact leaves_facts root c (p ++ [i]) o hgc hcc x hx
    · exact leavesL_facts root cs p (i + 1) (o + c.len) base t hg hc hrest
        (by rw [offsetIn_succ _ _ _ hci, ho]; omega) x hx
end

/-- consecutive spans from `o` to `e` -/
def Chain : Nat → List (Path × Nat × Green) → Nat → Prop
  | o, [], e => o = e
  | o, x :: xs, e => x.2.1 = o ∧ Chain (o + x.2.2.len) xs e

theorem chain_append {o m e : Nat} {a b : List (Path × Nat × Green)} (h1 : Chain o a m) (h2 : Chain m b e) :
    Chain o (a ++ b) e := by
  induction a generalizing o with
  | nil => simp only [Chain] at h1; subst h1; simpa using h2
  | cons x xs ih => exact ⟨h1.1, ih h1.2⟩

mutual
theorem leaves_chain : (g : Green) → (p : Path) → (o : Nat) → LenOk g → Chain o (leaves p o g) (o + g.len)
  | .tok id k key l, p, o, _ => by simp [leaves, Chain, Green.len]
  | .node id k l h cs, p, o, hl => by
    have hlen : l = sumLen cs := by
      have := LenOk_len hl (by simp [Green.isNode]); simpa [Green.len, Green.children] using this
    have := leavesL_chain cs p 0 o (LenOk_children hl)
    simp only [leaves, Green.len, hlen]
    exact this
theorem leavesL_chain : (cs : List Green) → (p : Path) → (i o : Nat) → LenOkL cs → Chain o (leavesL p i o cs) (o + sumLen cs)
  | [], _, _, _, _ => by simp [leavesL, Chain, sumLen]
  | c :: cs, p, i, o, hl => by
    simp only [LenOkL] at hl
    have h1 := leaves_chain c (p ++ [i]) o hl.1
    have h2 := leavesL_chain cs p (i + 1) (o + c.len) hl.2
    simp only [leavesL, sumLen]
    have e : o + (c.len + sumLen cs) = o + c.len + sumLen cs := by omega
    rw [e]
    exact chain_append h1 h2
end

def leafText (cfg : Cfg) (I : Interner) (x : Path × Nat × Green) : Text := (tokenText cfg I x.2.2).getD []

mutual
/-- the leaves resolve, their texts have the recorded lengths and concatenate to the text of the tree -/
theorem leaves_text (cfg : Cfg) (I : Interner) : (g : Green) → (p : Path) → (o : Nat) → GWf cfg I g →
    (∀ x ∈ leaves p o g, tokenText cfg I x.2.2 = some (leafText cfg I x) ∧ blen (leafText cfg I x) = x.2.2.len) ∧
    ∃ tg, resolveG cfg I g = some tg ∧ ((leaves p o g).map (leafText cfg I)).flatten = tg.text
  | .tok id k key l, p, o, hw => by
    obtain ⟨tg, hr, hlen⟩ := resolve_of_GWf _ hw
    have he := C11.tokenText_eq_resolve cfg I id k key l hw
    rw [hr] at he
    simp only [Option.map_some] at he
    refine ⟨?_, tg, hr, ?_⟩
    · intro x hx
      simp only [leaves, List.mem_singleton] at hx
      subst hx
      simp only [leafText, he, Option.getD_some]
      exact ⟨trivial, by simpa [Green.len] using hlen.symm⟩
    · simp [leaves, leafText, he]
  | .node id k l h cs, p, o, hw => by
    simp only [GWf] at hw
    obtain ⟨h1, ts, hr, hfl⟩ := leavesL_text cfg I cs p 0 o hw.2.2
    refine ⟨by simpa [leaves] using h1, .node k ts, by simp [resolveG, hr], ?_⟩
    simpa [leaves, Tree.text] using hfl
theorem leavesL_text (cfg : Cfg) (I : Interner) : (cs : List Green) → (p : Path) → (i o : Nat) → GWfL cfg I cs →
    (∀ x ∈ leavesL p i o cs, tokenText cfg I x.2.2 = some (leafText cfg I x) ∧ blen (leafText cfg I x) = x.2.2.len) ∧
    ∃ ts, resolveL cfg I cs = some ts ∧ ((leavesL p i o cs).map (leafText cfg I)).flatten = Tree.textL ts
  | [], _, _, _, _ => ⟨by intro x hx; simp [leavesL] at hx, [], by simp [resolveL], by simp [leavesL, Tree.textL]⟩
  | c :: cs, p, i, o, hw => by
    simp only [GWfL] at hw
    obtain ⟨a1, tg, a2, a3⟩ := leaves_text cfg I c (p ++ [i]) o hw.1
    obtain ⟨b1, ts, b2, b3⟩ := leavesL_text cfg I cs p (i + 1) (o + c.len) hw.2
    refine ⟨?_, tg :: ts, by simp [resolveL, a2, b2], ?_⟩
    · intro x hx
      simp only [leavesL, List.mem_append] at hx
      rcases hx with hx | hx
      · exact a1 x hx
      · exact b1 x hx
    · simp [leavesL, Tree.textL, a3, b3]
end

/-- the per-leaf cut with explicit spans (what the model computes from the stored ranges) -/
def cutL (cfg : Cfg) (I : Interner) (a b : Nat) : List (Path × Nat × Green) → List (Option Text)
  | [] => []
  | x :: xs =>
    (if min b (x.2.1 + x.2.2.len) < max a x.2.1 then []
     else [(tokenText cfg I x.2.2).bind (fun t => sliceBytes t (max a x.2.1 - x.2.1) (min b (x.2.1 + x.2.2.len) - x.2.1))]) ++
      cutL cfg I a b xs

theorem cutL_eq_cut (cfg : Cfg) (I : Interner) (a b : Nat) (L : List (Path × Nat × Green)) (o e : Nat)
    (hch : Chain o L e)
    (ht : ∀ x ∈ L, tokenText cfg I x.2.2 = some (leafText cfg I x) ∧ blen (leafText cfg I x) = x.2.2.len) :
    cutL cfg I a b L = cut a b o (L.map (leafText cfg I)) := by
  induction L generalizing o with
  | nil => rfl
  | cons x xs ih =>
    obtain ⟨h1, h2⟩ := ht x (by simp)
    simp only [Chain] at hch
    obtain ⟨hxo, hrest⟩ := hch
    simp only [cutL, List.map_cons, cut, h1, Option.bind_some, h2, hxo]
    rw [ih (o + x.2.2.len) (by rw [← hxo] at hrest ⊢; exact hrest) (fun y hy => ht y (by simp [hy]))]

def Red.WE.path : WE → Path
  | .enter p => p
  | .leave p => p

/-- every position the walk yields is materialised when the walk is over -/
theorem walk_all_mat (start : Path) (n : Nat) : ∀ (r : Red), Closed r → ∀ e, EvOk r start e →
    ∀ e' ∈ (Red.walk (walkNextT start) n r e).1, Mat (Red.walk (walkNextT start) n r e).2 e'.path := by
  induction n with
  | zero => intro r _ e _ e' he'; simp [Red.walk] at he'
  | succ n ih =>
    intro r hcl e he e' he'
    have hmono := (walk_sim start (n + 1) r hcl e he).2.2.2
    have hs := walkNextT_sim start r hcl e he
    have hme : Mat r e.path := by cases e <;> exact he.1
    simp only [Red.walk] at he' hmono ⊢
    cases hres : walkNextT start r e with
    | mk o r1 =>
      rw [hres] at hs he' hmono
      simp only at hs he' hmono ⊢
      cases o with
      | none =>
        simp only [List.mem_singleton] at he'
        subst he'
        exact hmono _ hme
      | some e1 =>
        simp only [List.mem_cons] at he'
        rcases he' with rfl | he'
        · exact hmono _ hme
        · exact ih r1 hs.2.2.2.2 e1 (hs.2.1 e1 rfl) e' he'

theorem mem_enters {es : List WE} {q : Path} (h : q ∈ enters es) : WE.enter q ∈ es := by
  induction es with
  | nil => simp [enters] at h
  | cons e es ih =>
    cases e with
    | enter p =>
      simp only [enters, List.mem_cons] at h
      rcases h with rfl | h
      · simp
      · exact List.mem_cons_of_mem _ (ih h)
    | leave p =>
      simp only [enters] at h
      exact List.mem_cons_of_mem _ (ih h)

/-- the chunk list of the model is the per-leaf cut -/
theorem chunks_of_leaves (cfg : Cfg) (I : Interner) (r' : Red) (rg : Nat × Nat) (L : List (Path × Nat × Green))
    (h : ∀ x ∈ L, r'.range x.1 = some (x.2.1, x.2.1 + x.2.2.len) ∧ r'.green x.1 = some x.2.2) :
    ((L.map (·.1)).filterMap (cutOf r' rg)).map (chunkOf cfg I r') = cutL cfg I rg.1 rg.2 L := by
  induction L with
  | nil => rfl
  | cons x xs ih =>
    obtain ⟨h1, h2⟩ := h x (by simp)
    have ih' := ih (fun y hy => h y (by simp [hy]))
    simp only [List.map_cons, List.filterMap_cons, cutOf, h1, cutL]
    by_cases hsk : min rg.2 (x.2.1 + x.2.2.len) < max rg.1 x.2.1
    · have hi : intersect rg (x.2.1, x.2.1 + x.2.2.len) = none := by simp [intersect, hsk]
      simp only [hi, Option.map_none, hsk, ↓reduceIte, List.nil_append]
      exact ih'
    · have hi : intersect rg (x.2.1, x.2.1 + x.2.2.len) = some (max rg.1 x.2.1, min rg.2 (x.2.1 + x.2.2.len)) := by
        simp [intersect, hsk]
      simp only [hi, Option.map_some, hsk, ↓reduceIte, List.map_cons, List.singleton_append]
      rw [ih']
      congr 1
      simp only [chunkOf, h2, Option.bind_some]
      cases tokenText cfg I x.2.2 <;> rfl

/-- the chunk list of a view of a node of a canonical red tree is the per-token cut of the node's token texts -/
theorem chunks_tree_eq (cfg : Cfg) (I : Interner) (r : Red) (hr : RInv r) (hcl : Closed r) (v : View)
    (g : Green) (base : Nat) (hg : r.green v.node = some g) (hs : r.start v.node = some base)
    (hw : GWf cfg I g) :
    ∃ tg ts, resolveG cfg I g = some tg ∧ ts.flatten = tg.text ∧
      (r.chunks cfg I v).1 = cut v.range.1 v.range.2 base ts := by
  obtain ⟨hleaf, tg, hres, hflat⟩ := leaves_text cfg I g v.node base hw
  refine ⟨tg, _, hres, hflat, ?_⟩
  -- the walk
  have hm : Mat r v.node := ⟨base, hs⟩
  have hspec := preorderWithTokens_spec r hcl v.node g hm hg
  have hkeep : RInv (r.preorderWithTokens v.node).2 ∧ (r.preorderWithTokens v.node).2.root = r.root :=
    preorderWithTokens_keeps v.node r hr
  have hallmat := walk_all_mat v.node (Red.walkFuel r v.node) r hcl (.enter v.node) ⟨hm, ⟨g, hg⟩, List.prefix_refl _⟩
  have hgr : Green.get r.root v.node = some g := hg
  have hcan : canon r.root v.node = some base := hr.canon.start hs
  have hfacts := leaves_facts r.root g v.node base hgr hcan
  -- unfold the model
  simp only [Red.chunks, Red.tokensWithRanges, Red.descendantsWithTokens]
  have hes : (r.preorderWithTokens v.node).1 = C03.pre v.node g := hspec.1
  have hroot := hkeep.2
  have htoks : (enters (r.preorderWithTokens v.node).1).filter (r.preorderWithTokens v.node).2.isToken =
      (leaves v.node base g).map (·.1) := by
    rw [hes, ← enters_pre r.root g v.node base hgr]
    apply List.filter_congr
    intro q _
    unfold tokAt Red.isToken Red.green
    rw [hroot]
  rw [htoks]
  have hranges : ∀ y ∈ leaves v.node base g,
      (r.preorderWithTokens v.node).2.range y.1 = some (y.2.1, y.2.1 + y.2.2.len) ∧
      (r.preorderWithTokens v.node).2.green y.1 = some y.2.2 := by
    intro y hy
    obtain ⟨f1, f2, f3⟩ := hfacts y hy
    have hgy : (r.preorderWithTokens v.node).2.green y.1 = some y.2.2 := by
      unfold Red.green; rw [hroot]; exact f1
    have hin : y.1 ∈ enters (C03.pre v.node g) := by
      have : y.1 ∈ (leaves v.node base g).map (·.1) := List.mem_map_of_mem hy
      rw [← enters_pre r.root g v.node base hgr] at this
      exact (List.mem_filter.mp this).1
    have hmat : Mat (r.preorderWithTokens v.node).2 y.1 := by
      have := hallmat (.enter y.1) (by
        have h1 : WE.enter y.1 ∈ C03.pre v.node g := mem_enters hin
        rw [← hes] at h1
        exact h1)
      exact this
    obtain ⟨o, ho⟩ := hmat
    have hco := hkeep.1.canon.start ho
    rw [hroot, f3] at hco
    cases hco
    exact ⟨by simp [Red.range, ho, hgy], hgy⟩
  rw [chunks_of_leaves cfg I _ v.range (leaves v.node base g) hranges]
  have hlen : LenOk g := by have := hr.lens; exact LenOk_get this hgr
  rw [cutL_eq_cut cfg I v.range.1 v.range.2 (leaves v.node base g) base (base + g.len) (leaves_chain g v.node base hlen) hleaf]

/-- **the chunks of a view are the slice of the node's text**: on a canonical red tree, for any view of a
    node whose slice of the node's text exists (`&text[a..b]` does not panic), the concatenation of the
    chunks the view's queries run over is exactly that slice -/
theorem chunks_tree (cfg : Cfg) (I : Interner) (r : Red) (hr : RInv r) (hcl : Closed r) (v : View)
    (g : Green) (base : Nat) (hg : r.green v.node = some g) (hs : r.start v.node = some base)
    (hw : GWf cfg I g) (hab : v.range.1 ≤ v.range.2) (x : Text) :
    ∃ tg, resolveG cfg I g = some tg ∧
      (sliceBytes tg.text (v.range.1 - base) (v.range.2 - base) = some x →
        chunksConcat (r.chunks cfg I v).1 = some x) := by
  obtain ⟨tg, ts, hres, hflat, heq⟩ := chunks_tree_eq cfg I r hr hcl v g base hg hs hw
  refine ⟨tg, hres, fun hslice => ?_⟩
  rw [heq]
  apply cut_spec v.range.1 v.range.2 hab
  rw [hflat]
  exact hslice

/-- **and only then**: for a view inside the node's range, if the whole-text query over the chunks succeeds, the slice of
    the node's text exists and is the result; so a view cut inside a character (the slice would panic) makes `to_string`
    and every query that reaches the cut panic -/
theorem chunks_tree_conv (cfg : Cfg) (I : Interner) (r : Red) (hr : RInv r) (hcl : Closed r) (v : View)
    (g : Green) (base : Nat) (hg : r.green v.node = some g) (hs : r.start v.node = some base)
    (hw : GWf cfg I g) (hab : v.range.1 ≤ v.range.2) :
    ∃ tg, resolveG cfg I g = some tg ∧
      (v.range.2 ≤ base + blen tg.text → ∀ x, chunksConcat (r.chunks cfg I v).1 = some x →
        sliceBytes tg.text (v.range.1 - base) (v.range.2 - base) = some x) := by
  obtain ⟨tg, ts, hres, hflat, heq⟩ := chunks_tree_eq cfg I r hr hcl v g base hg hs hw
  refine ⟨tg, hres, fun hin x hc => ?_⟩
  rw [heq] at hc
  rw [← hflat] at hin ⊢
  exact cut_spec_conv v.range.1 v.range.2 hab ts base x hc hin

/-- a view whose slice of the node's text does not exist (an end inside a character) panics when read as a whole -/
theorem chunks_tree_panics (cfg : Cfg) (I : Interner) (r : Red) (hr : RInv r) (hcl : Closed r) (v : View)
    (g : Green) (base : Nat) (hg : r.green v.node = some g) (hs : r.start v.node = some base)
    (hw : GWf cfg I g) (hab : v.range.1 ≤ v.range.2) :
    ∃ tg, resolveG cfg I g = some tg ∧
      (v.range.2 ≤ base + blen tg.text → sliceBytes tg.text (v.range.1 - base) (v.range.2 - base) = none →
        chunksConcat (r.chunks cfg I v).1 = none) := by
  obtain ⟨tg, hres, h⟩ := chunks_tree_conv cfg I r hr hcl v g base hg hs hw hab
  refine ⟨tg, hres, fun hin hnone => ?_⟩
  cases hc : chunksConcat (r.chunks cfg I v).1 with
  | none => rfl
  | some x => rw [h hin x hc] at hnone; cases hnone

end Cst
