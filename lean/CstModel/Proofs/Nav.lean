/- helper lemmas for C03: which position each navigation operation returns -/
import CstModel.Proofs.Red
namespace Cst

theorem pick_path (r : Red) (p : Path) (cand : Option (Green × Nat × Nat)) :
    (r.pick p cand).1 = cand.map (fun e => p ++ [e.2.1]) := by
  cases cand with
  | none => rfl
  | some e => obtain ⟨c, i, o⟩ := e; rfl

/-- the entries of `childrenFromGo` carry consecutive indices starting at `i` -/
theorem childrenFromGo_indices (rest : List Green) (i o : Nat) :
    (childrenFromGo rest i o).map (fun e => (e.1, e.2.1)) = rest.zipIdx i := by
  induction rest generalizing i o with
  | nil => rfl
  | cons c rest ih => simp [childrenFromGo, List.zipIdx_cons, ih]

/-- first node among `rest` (which starts at index `i`): its index, and that everything before it is
    a token -/
theorem firstNode_from_some (rest : List Green) (i o : Nat) (c : Green) (j o' : Nat)
    (h : firstNode (childrenFromGo rest i o) = some (c, j, o')) :
    ∃ k, j = i + k ∧ rest[k]? = some c ∧ c.isNode = true ∧ ∀ k' < k, ∀ d, rest[k']? = some d → d.isNode = false := by
  induction rest generalizing i o with
  | nil => simp [childrenFromGo, firstNode] at h
  | cons x rest ih =>
    simp only [childrenFromGo, firstNode] at h
    by_cases hn : x.isNode = true
    · simp only [hn, ↓reduceIte, Option.some.injEq, Prod.mk.injEq] at h
      obtain ⟨rfl, rfl, rfl⟩ := h
      exact ⟨0, rfl, by simp, hn, by intro k' hk'; omega⟩
    · simp only [hn, Bool.false_eq_true, ↓reduceIte] at h
      obtain ⟨k, hj, hk, hnode, hbefore⟩ := ih (i + 1) (o + x.len) h
      refine ⟨k + 1, by omega, by simpa using hk, hnode, ?_⟩
      intro k' hk' d hd
      cases k' with
      | zero => simp at hd; subst hd; simpa using hn
      | succ m => simp at hd; exact hbefore m (by omega) d hd

theorem firstNode_from_none (rest : List Green) (i o : Nat)
    (h : firstNode (childrenFromGo rest i o) = none) : ∀ d ∈ rest, d.isNode = false := by
  induction rest generalizing i o with
  | nil => simp
  | cons x rest ih =>
    simp only [childrenFromGo, firstNode] at h
    by_cases hn : x.isNode = true
    · simp [hn] at h
    · simp only [hn, Bool.false_eq_true, ↓reduceIte] at h
      intro d hd
      simp only [List.mem_cons] at hd
      rcases hd with rfl | hd
      · simpa using hn
      · exact ih (i + 1) (o + x.len) h d hd

end Cst
