/-
  Proofs/WalkN — the nodes-only walk `preorder()` (`walkNextN`: `first_child` / `next_sibling`) is the
  recursive preorder over the *node* children of the sub-tree.
-/
import CstModel.Proofs.Walk
namespace Cst
open Red

/-- index of the first node among `cs`, counting from `i` -/
def firstNodeIdx : List Green → Nat → Option Nat
  | [], _ => none
  | c :: cs, i => if c.isNode then some i else firstNodeIdx cs (i + 1)

/-- first node child of the node at `q` with index at least `i` -/
def nodeFrom (g : Green) (q : Path) (i : Nat) : Option Nat :=
  match Green.get g q with
  | some t => firstNodeIdx (t.children.drop i) i
  | none => none

/-- pure successor of the nodes-only walk -/
def nextN (g : Green) (start : Path) : WE → Option WE
  | .enter p =>
    match nodeFrom g p 0 with
    | some j => some (.enter (p ++ [j]))
    | none => some (.leave p)
  | .leave p =>
    if p = start then none else
    match p.getLast? with
    | none => none
    | some i =>
      match nodeFrom g p.dropLast (i + 1) with
      | some j => some (.enter (p.dropLast ++ [j]))
      | none => some (.leave p.dropLast)

def walkNN (g : Green) (start : Path) : Nat → WE → List WE
  | 0, _ => []
  | n + 1, e => e :: match nextN g start e with
    | none => []
    | some e' => walkNN g start n e'

mutual
/-- the recursive nodes-only preorder -/
def preN (p : Path) : Green → List WE
  | .tok .. => []
  | .node _ _ _ _ cs => .enter p :: (preNL p 0 cs ++ [.leave p])
def preNL (p : Path) (i : Nat) : List Green → List WE
  | [] => []
  | c :: cs => preN (p ++ [i]) c ++ preNL p (i + 1) cs
end

theorem firstNodeIdx_spec (cs : List Green) (i j : Nat) (h : firstNodeIdx cs i = some j) :
    ∃ k c, j = i + k ∧ cs[k]? = some c ∧ c.isNode = true ∧ firstNodeIdx (cs.drop (k + 1)) (j + 1) = firstNodeIdx (cs.drop (k + 1)) (i + k + 1) := by
  induction cs generalizing i with
  | nil => simp [firstNodeIdx] at h
  | cons c cs ih =>
    simp only [firstNodeIdx] at h
    split at h
    · rename_i hn
      cases h
      exact ⟨0, c, rfl, rfl, hn, rfl⟩
    · obtain ⟨k, d, h1, h2, h3, h4⟩ := ih (i + 1) h
      refine ⟨k + 1, d, by omega, by simpa using h2, h3, ?_⟩
      simp only [List.drop_succ_cons]
      rw [h4]
      congr 1; omega

theorem firstNode_idx (rest : List Green) (i o : Nat) :
    (firstNode (childrenFromGo rest i o)).map (fun e => e.2.1) = firstNodeIdx rest i := by
  induction rest generalizing i o with
  | nil => rfl
  | cons c rest ih =>
    simp only [childrenFromGo, firstNode, firstNodeIdx]
    split
    · rfl
    · exact ih (i + 1) (o + c.len)

/-- `first_child` is the first node child -/
theorem firstChild_path (r : Red) (p : Path) (t : Green) (o : Nat) (hg : r.green p = some t) (hs : r.start p = some o) :
    (r.firstChild p).1 = (firstNodeIdx t.children 0).map (fun j => p ++ [j]) := by
  simp only [Red.firstChild, hg, hs, pick_path, childrenFrom, List.drop_zero]
  rw [← firstNode_idx t.children 0 o]
  cases firstNode (childrenFromGo t.children 0 o) <;> rfl

/-- `next_sibling` is the next node child of the parent -/
theorem nextSibling_path (r : Red) (q : Path) (i : Nat) (tq : Green) (se : Nat × Nat)
    (hq : r.green q = some tq) (hr : r.range (q ++ [i]) = some se) :
    (r.nextSibling (q ++ [i])).1 = (firstNodeIdx (tq.children.drop (i + 1)) (i + 1)).map (fun j => q ++ [j]) := by
  have hsp : Red.split (q ++ [i]) = some (q, i) := by simp [Red.split]
  simp only [Red.nextSibling, hsp, hr, Red.nextChildAfter, hq, pick_path, childrenFrom]
  rw [← firstNode_idx (tq.children.drop (i + 1)) (i + 1) se.2]
  cases firstNode (childrenFromGo (tq.children.drop (i + 1)) (i + 1) se.2) <;> rfl

theorem firstChild_mat (r : Red) (p : Path) :
    (∀ q, (r.firstChild p).1 = some q → Mat (r.firstChild p).2 q) ∧
    (∀ q, Mat r q → Mat (r.firstChild p).2 q) ∧ (r.firstChild p).2.root = r.root ∧
    (Closed r → Closed (r.firstChild p).2) := by
  simp only [Red.firstChild]
  cases r.green p with
  | none => exact ⟨by simp, fun q h => h, rfl, id⟩
  | some g =>
    cases hs : r.start p with
    | none => exact ⟨by simp, fun q h => h, rfl, id⟩
    | some o =>
      have := pick_mat r p (firstNode (childrenFrom g.children 0 o))
      exact ⟨this.1, this.2.1, this.2.2, fun hc => pick_closed hc ⟨o, hs⟩ _⟩

theorem nextSibling_mat (r : Red) (p : Path) :
    (∀ q, (r.nextSibling p).1 = some q → Mat (r.nextSibling p).2 q) ∧
    (∀ q, Mat r q → Mat (r.nextSibling p).2 q) ∧ (r.nextSibling p).2.root = r.root ∧
    (Closed r → Closed (r.nextSibling p).2) := by
  simp only [Red.nextSibling]
  cases hsp : Red.split p with
  | none => exact ⟨by simp, fun q h => h, rfl, id⟩
  | some qi =>
    obtain ⟨q, i⟩ := qi
    cases hr : r.range p with
    | none => exact ⟨by simp, fun q h => h, rfl, id⟩
    | some se =>
      simp only [Red.nextChildAfter]
      cases r.green q with
      | none => exact ⟨by simp, fun q h => h, rfl, id⟩
      | some g =>
        have := pick_mat r q (firstNode (childrenFrom g.children (i + 1) se.2))
        refine ⟨this.1, this.2.1, this.2.2, fun hc => pick_closed hc ?_ _⟩
        have hp := split_spec hsp
        exact hc q i (hp ▸ mat_of_range hr)

/-- **simulation step** of the nodes-only walk -/
theorem walkNextN_sim (start : Path) (r : Red) (hcl : Closed r) (e : WE) (he : EvOk r start e) :
    (walkNextN start r e).1 = nextN r.root start e ∧
    (∀ e', (walkNextN start r e).1 = some e' → EvOk (walkNextN start r e).2 start e') ∧
    (∀ q, Mat r q → Mat (walkNextN start r e).2 q) ∧ (walkNextN start r e).2.root = r.root ∧
    Closed (walkNextN start r e).2 := by
  cases e with
  | enter p =>
    obtain ⟨hm, ⟨t, ht⟩, hpre⟩ := he
    obtain ⟨o, ho⟩ := hm
    have hget : Green.get r.root p = some t := ht
    have hpath := firstChild_path r p t o ht ho
    have hmat := firstChild_mat r p
    simp only [walkNextN, nextN, nodeFrom, hget, List.drop_zero]
    cases hres : r.firstChild p with
    | mk res r1 =>
      rw [hres] at hpath hmat
      simp only at hpath hmat
      cases hf : firstNodeIdx t.children 0 with
      | none =>
        rw [hf] at hpath
        simp only [Option.map_none] at hpath
        subst hpath
        refine ⟨by first | rfl | trivial, ?_, hmat.2.1, hmat.2.2.1, hmat.2.2.2 hcl⟩
        intro e' he'
        cases he'
        exact ⟨hmat.2.1 p ⟨o, ho⟩, ⟨t, by unfold Red.green at ht ⊢; rw [hmat.2.2.1]; exact ht⟩, hpre⟩
      | some j =>
        rw [hf] at hpath
        simp only [Option.map_some] at hpath
        subst hpath
        refine ⟨by first | rfl | trivial, ?_, hmat.2.1, hmat.2.2.1, hmat.2.2.2 hcl⟩
        intro e' he'
        cases he'
        obtain ⟨k, c, hk, hc, _, _⟩ := firstNodeIdx_spec t.children 0 j hf
        have hj : j = k := by omega
        subst hj
        refine ⟨hmat.1 _ rfl, ⟨c, ?_⟩, List.IsPrefix.trans hpre (List.prefix_append _ _)⟩
        unfold Red.green; rw [hmat.2.2.1]
        exact C03.get_child r.root p t hget j c hc
  | leave p =>
    obtain ⟨hm, ⟨t, ht⟩, hpre⟩ := he
    simp only [walkNextN, nextN]
    by_cases hps : p = start
    · simp only [hps, ↓reduceIte]
      exact ⟨by first | rfl | trivial, by simp, fun q h => h, by first | rfl | trivial, hcl⟩
    · simp only [hps, ↓reduceIte]
      cases hl : p.getLast? with
      | none =>
        have : p = [] := List.getLast?_eq_none_iff.mp hl
        subst this
        have : start = [] := List.prefix_nil.mp hpre
        exact absurd this.symm hps
      | some i =>
        obtain ⟨q, rfl⟩ := List.getLast?_eq_some_iff.mp hl
        simp only [List.dropLast_concat]
        have hgq : ∃ tq, Green.get r.root q = some tq ∧ tq.children[i]? = some t := by
          have : Green.get r.root (q ++ [i]) = some t := ht
          rw [get_append_single] at this
          cases hq : Green.get r.root q with
          | none => simp [hq] at this
          | some tq => simp only [hq, Option.bind_some] at this; exact ⟨tq, rfl, this⟩
        obtain ⟨tq, htq, hti⟩ := hgq
        obtain ⟨se, hse⟩ := range_of_mat hm ht
        have hpath := nextSibling_path r q i tq se htq hse
        have hmat := nextSibling_mat r (q ++ [i])
        have hpq : start <+: q := by
          obtain ⟨rest, hrest⟩ := hpre
          cases hrl : rest.getLast? with
          | none =>
            have : rest = [] := List.getLast?_eq_none_iff.mp hrl
            subst this; simp at hrest; exact absurd hrest.symm hps
          | some j =>
            obtain ⟨rest', rfl⟩ := List.getLast?_eq_some_iff.mp hrl
            rw [← List.append_assoc] at hrest
            have := List.append_inj_left' hrest (by simp)
            exact ⟨rest', this⟩
        simp only [nodeFrom, htq]
        cases hres : r.nextSibling (q ++ [i]) with
        | mk res r1 =>
          rw [hres] at hpath hmat
          simp only at hpath hmat
          cases hf : firstNodeIdx (tq.children.drop (i + 1)) (i + 1) with
          | some j =>
            rw [hf] at hpath
            simp only [Option.map_some] at hpath
            subst hpath
            refine ⟨by first | rfl | trivial, ?_, hmat.2.1, hmat.2.2.1, hmat.2.2.2 hcl⟩
            intro e' he'
            cases he'
            obtain ⟨k, c, hk, hc, _, _⟩ := firstNodeIdx_spec _ (i + 1) j hf
            refine ⟨hmat.1 _ rfl, ⟨c, ?_⟩, List.IsPrefix.trans hpq (List.prefix_append _ _)⟩
            unfold Red.green; rw [hmat.2.2.1]
            refine C03.get_child r.root q tq htq j c ?_
            rw [List.getElem?_drop] at hc
            rw [hk]; exact hc
          | none =>
            rw [hf] at hpath
            simp only [Option.map_none] at hpath
            subst hpath
            simp only [C03.parent_child]
            refine ⟨by first | rfl | trivial, ?_, hmat.2.1, hmat.2.2.1, hmat.2.2.2 hcl⟩
            intro e' he'
            cases he'
            refine ⟨?_, ⟨tq, by unfold Red.green; rw [hmat.2.2.1]; exact htq⟩, hpq⟩
            exact (hmat.2.2.2 hcl) q i (hmat.2.1 _ hm)

theorem walkN_sim (start : Path) (n : Nat) (r : Red) (hcl : Closed r) (e : WE) (he : EvOk r start e) :
    (Red.walk (walkNextN start) n r e).1 = walkNN r.root start n e ∧
    (Red.walk (walkNextN start) n r e).2.root = r.root ∧ Closed (Red.walk (walkNextN start) n r e).2 ∧
    (∀ q, Mat r q → Mat (Red.walk (walkNextN start) n r e).2 q) := by
  induction n generalizing r e with
  | zero => exact ⟨rfl, rfl, hcl, fun q h => h⟩
  | succ n ih =>
    have hs := walkNextN_sim start r hcl e he
    simp only [Red.walk, walkNN]
    cases hres : walkNextN start r e with
    | mk o r1 =>
      rw [hres] at hs
      simp only at hs
      rw [← hs.1]
      cases o with
      | none => exact ⟨rfl, hs.2.2.2.1, hs.2.2.2.2, hs.2.2.1⟩
      | some e' =>
        have := ih r1 hs.2.2.2.2 e' (hs.2.1 e' rfl)
        simp only
        rw [this.1, hs.2.2.2.1]
        exact ⟨rfl, this.2.1.trans hs.2.2.2.1, this.2.2.1, fun q h => this.2.2.2 q (hs.2.2.1 q h)⟩

/-! ### the pure successor walk is the recursive nodes-only preorder -/

def contN (g : Green) (start : Path) (n : Nat) (p : Path) : List WE :=
  match nextN g start (.leave p) with
  | none => []
  | some e' => walkNN g start n e'

theorem preN_tok (p : Path) (c : Green) (h : c.isNode = false) : preN p c = [] := by
  cases c with
  | tok _ _ _ _ => rfl
  | node _ _ _ _ _ => simp [Green.isNode] at h

theorem preNL_none (p : Path) (i : Nat) (cs : List Green) (h : firstNodeIdx cs i = none) : preNL p i cs = [] := by
  induction cs generalizing i with
  | nil => rfl
  | cons c cs ih =>
    simp only [firstNodeIdx] at h
    split at h
    · cases h
    · rename_i hn
      simp only [preNL, preN_tok _ c (by simpa using hn), List.nil_append]
      exact ih (i + 1) h

theorem nextN_leave_child (g : Green) (start p : Path) (i : Nat) (hlen : start.length ≤ p.length) :
    nextN g start (.leave (p ++ [i])) =
      match nodeFrom g p (i + 1) with
      | some j => some (.enter (p ++ [j]))
      | none => some (.leave p) := by
  have hne : p ++ [i] ≠ start := by
    intro h; have := congrArg List.length h; simp at this; omega
  simp [nextN, hne]

mutual
theorem walk_preN (g : Green) (start : Path) (p : Path) (t : Green) (hg : Green.get g p = some t)
    (hn : t.isNode = true) (hlen : start.length ≤ p.length) (n : Nat) :
    walkNN g start (n + (preN p t).length) (.enter p) = preN p t ++ contN g start n p := by
  cases t with
  | tok _ _ _ _ => simp [Green.isNode] at hn
  | node id k l hh cs =>
    have hnf : nodeFrom g p 0 = firstNodeIdx cs 0 := by simp [nodeFrom, hg, Green.children]
    cases hf : firstNodeIdx cs 0 with
    | none =>
      have hnil := preNL_none p 0 cs hf
      simp only [preN, hnil, List.nil_append, List.length_cons, List.length_nil]
      have e : n + (0 + 1 + 1) = (n + 1) + 1 := by omega
      rw [e]
      have h1 : nextN g start (.enter p) = some (.leave p) := by simp [nextN, hnf, hf]
      simp only [walkNN, h1, contN]
      rfl
    | some j =>
      have hL := walk_preNL g start p (.node id k l hh cs) hg hlen 0 cs (by simp [Green.children]) j hf (n + 1)
      have e : n + (preN p (.node id k l hh cs)).length = (n + 1 + (preNL p 0 cs).length) + 1 := by
        simp [preN]; omega
      rw [e]
      have h1 : nextN g start (.enter p) = some (.enter (p ++ [j])) := by simp [nextN, hnf, hf]
      simp only [walkNN, h1]
      rw [hL]
      simp [preN, walkNN, contN]
theorem walk_preNL (g : Green) (start : Path) (p : Path) (t : Green)
    (hg : Green.get g p = some t) (hlen : start.length ≤ p.length)
    (i : Nat) (cs : List Green) (hcs : t.children.drop i = cs) (j : Nat) (hj : firstNodeIdx cs i = some j) (n : Nat) :
    walkNN g start (n + (preNL p i cs).length) (.enter (p ++ [j])) =
      preNL p i cs ++ walkNN g start n (.leave p) := by
  cases cs with
  | nil => simp [firstNodeIdx] at hj
  | cons c cs' =>
    have hc : t.children[i]? = some c := by
      have := congrArg List.head? hcs; simpa [List.head?_drop] using this
    have hgc := C03.get_child g p t hg i c hc
    have hdrop : t.children.drop (i + 1) = cs' := by
      have := congrArg List.tail hcs; simpa [List.tail_drop] using this
    have hnf : nodeFrom g p (i + 1) = firstNodeIdx cs' (i + 1) := by simp [nodeFrom, hg, hdrop]
    by_cases hcn : c.isNode = true
    · -- the first node child is this one
      simp only [firstNodeIdx, hcn, ↓reduceIte, Option.some.injEq] at hj
      subst hj
      have hW := walk_preN g start (p ++ [i]) c hgc hcn (by simp; omega) (n + (preNL p (i + 1) cs').length)
      have e : n + (preNL p i (c :: cs')).length
          = n + (preNL p (i + 1) cs').length + (preN (p ++ [i]) c).length := by simp [preNL]; omega
      rw [e, hW]
      simp only [preNL, List.append_assoc, List.append_cancel_left_eq]
      simp only [contN, nextN_leave_child g start p i hlen, hnf]
      cases hf' : firstNodeIdx cs' (i + 1) with
      | none =>
        simp only [preNL_none p (i + 1) cs' hf', List.length_nil, Nat.add_zero, List.nil_append]
      | some j' =>
        simp only
        exact walk_preNL g start p t hg hlen (i + 1) cs' hdrop j' hf' n
    · -- a token: skipped
      have hcn' : c.isNode = false := by simpa using hcn
      simp only [firstNodeIdx, hcn', Bool.false_eq_true, ↓reduceIte] at hj
      simp only [preNL, preN_tok _ c hcn', List.nil_append]
      exact walk_preNL g start p t hg hlen (i + 1) cs' hdrop j hj n
end

theorem preN_length : (p : Path) → (t : Green) → (preN p t).length ≤ 2 * Red.gsize t
  | _, .tok .. => by simp [preN]
  | p, .node _ _ _ _ cs => by
    have := preNL_length p 0 cs
    simp only [preN, Red.gsize, List.length_cons, List.length_append, List.length_nil]
    omega
where
  preNL_length : (p : Path) → (i : Nat) → (cs : List Green) → (preNL p i cs).length ≤ 2 * Red.gsizeL cs
    | _, _, [] => by simp [preNL, Red.gsizeL]
    | p, i, c :: cs => by
      have h1 := preN_length (p ++ [i]) c
      have h2 := preNL_length p (i + 1) cs
      simp only [preNL, Red.gsizeL, List.length_append]
      omega

/-- **the modelled `preorder()` is the recursive nodes-only preorder of the sub-tree**: properly nested
    enter/leave events, every *node* of the sub-tree exactly once, in source order, tokens skipped -/
theorem preorder_nodes_spec (r : Red) (hcl : Closed r) (p : Path) (t : Green)
    (hm : Mat r p) (ht : r.green p = some t) (hn : t.isNode = true) :
    (r.preorder p).1 = preN p t ∧ (r.preorder p).2.root = r.root ∧
      Closed (r.preorder p).2 ∧ (∀ q, Mat r q → Mat (r.preorder p).2 q) := by
  have hs := walkN_sim p (Red.walkFuel r p) r hcl (.enter p) ⟨hm, ⟨t, ht⟩, List.prefix_refl _⟩
  refine ⟨?_, hs.2.1, hs.2.2.1, hs.2.2.2⟩
  simp only [Red.preorder]
  rw [hs.1]
  have hlen := preN_length p t
  have hfuel : Red.walkFuel r p = (Red.walkFuel r p - (preN p t).length) + (preN p t).length := by
    simp [Red.walkFuel, ht]; omega
  rw [hfuel, walk_preN r.root p p t ht hn (Nat.le_refl _)]
  simp [contN, nextN]

end Cst
