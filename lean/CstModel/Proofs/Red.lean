/- helper lemmas for the red layer: canonical offsets, the routes, the offset-cache invariant -/
import CstModel.Model.Query
import CstModel.Proofs.Green
namespace Cst

/-- offset of child `i` relative to the start of its parent -/
def offsetIn (cs : List Green) (i : Nat) : Nat := sumLen (cs.take i)

/-- the canonical start offset of a position: root 0; child `i` at parent offset + Σ lengths of
    the children before it -/
def canon : Green → Path → Option Nat
  | _, [] => some 0
  | g, i :: p =>
    match g.children[i]? with
    | some c => (canon c p).map (· + offsetIn g.children i)
    | none => none

theorem sumLen_append (a b : List Green) : sumLen (a ++ b) = sumLen a + sumLen b := by
  induction a with
  | nil => simp [sumLen]
  | cons x xs ih => simp [sumLen, ih]; omega

theorem offsetIn_zero (cs : List Green) : offsetIn cs 0 = 0 := by simp [offsetIn, sumLen]

theorem offsetIn_succ (cs : List Green) (i : Nat) (c : Green) (h : cs[i]? = some c) :
    offsetIn cs (i + 1) = offsetIn cs i + c.len := by
  unfold offsetIn
  have hi : i < cs.length := (List.getElem?_eq_some_iff.mp h).1
  have hc : cs[i] = c := (List.getElem?_eq_some_iff.mp h).2
  rw [List.take_succ_eq_append_getElem hi, sumLen_append, hc]
  simp [sumLen]

theorem offsetIn_length (cs : List Green) (n : Nat) (h : cs.length ≤ n) : offsetIn cs n = sumLen cs := by
  simp [offsetIn, List.take_of_length_le h]

theorem get_append_single (g : Green) (p : Path) (i : Nat) :
    Green.get g (p ++ [i]) = (Green.get g p).bind (fun t => t.children[i]?) := by
  induction p generalizing g with
  | nil =>
    simp only [List.nil_append, Green.get, Option.bind_some]
    cases g.children[i]? <;> rfl
  | cons j p ih =>
    simp only [List.cons_append, Green.get]
    cases g.children[j]? with
    | none => rfl
    | some c => exact ih c

/-- canonical offset of a child = canonical offset of the parent + its offset among the siblings -/
theorem canon_append_single (g : Green) (p : Path) (i : Nat) (t c : Green) (o : Nat)
    (hg : Green.get g p = some t) (hc : t.children[i]? = some c) (ho : canon g p = some o) :
    canon g (p ++ [i]) = some (o + offsetIn t.children i) := by
  induction p generalizing g o with
  | nil =>
    simp only [Green.get, Option.some.injEq] at hg; subst hg
    simp only [canon, Option.some.injEq] at ho; subst ho
    simp [canon, hc]
  | cons j p ih =>
    simp only [Green.get] at hg
    simp only [canon] at ho
    cases hj : g.children[j]? with
    | none => simp [hj] at hg
    | some cj =>
      simp only [hj] at hg ho
      cases hcp : canon cj p with
      | none => simp [hcp] at ho
      | some o' =>
        simp only [hcp, Option.map_some, Option.some.injEq] at ho
        have := ih cj o' hg hcp
        simp only [List.cons_append, canon, hj, this, Option.map_some, Option.some.injEq]
        omega

/-! ### the routes supply canonical `(index, offset)` pairs -/

/-- an entry `(element, index, offset)` is right for children `cs` based at `base` -/
def EntryOk (cs : List Green) (base : Nat) (e : Green × Nat × Nat) : Prop :=
  cs[e.2.1]? = some e.1 ∧ e.2.2 = base + offsetIn cs e.2.1

theorem childrenFromGo_ok (cs : List Green) (base : Nat) (rest : List Green) (i o : Nat)
    (hrest : rest = cs.drop i) (ho : o = base + offsetIn cs i) :
    ∀ e ∈ childrenFromGo rest i o, EntryOk cs base e := by
  induction rest generalizing i o with
  | nil => simp [childrenFromGo]
  | cons c rest ih =>
    intro e he
    have hci : cs[i]? = some c := by
      have := congrArg List.head? hrest; simp [List.head?_drop] at this; exact this.symm
    simp only [childrenFromGo, List.mem_cons] at he
    rcases he with rfl | he
    · exact ⟨hci, ho⟩
    · refine ih (i + 1) (o + c.len) ?_ ?_ e he
      · have := congrArg List.tail hrest; simpa [List.tail_drop] using this
      · rw [offsetIn_succ cs i c hci]; omega

/-- `children_from(start, offset)` is canonical when `offset` is the canonical offset of child
    `start` (which is what every internal caller passes) -/
theorem childrenFrom_ok (cs : List Green) (base start off : Nat) (h : off = base + offsetIn cs start) :
    ∀ e ∈ childrenFrom cs start off, EntryOk cs base e :=
  childrenFromGo_ok cs base _ start off rfl h

theorem childrenFrom_head (cs : List Green) (start off : Nat) :
    (childrenFrom cs start off).head? = (cs[start]?).map (fun c => (c, start, off)) := by
  unfold childrenFrom
  cases h : cs.drop start with
  | nil =>
    have : cs.length ≤ start := by simpa using List.drop_eq_nil_iff.mp h
    simp [childrenFromGo, List.getElem?_eq_none this]
  | cons c rest =>
    have hci : cs[start]? = some c := by
      have := congrArg List.head? h; simpa [List.head?_drop] using this
    simp [childrenFromGo, hci]

theorem childrenToGo_ok (cs : List Green) (base : Nat) (rev : List Green) (i o : Nat)
    (hi : i ≤ cs.length) (hrev : rev = (cs.take i).reverse) (ho : o = base + offsetIn cs i) :
    ∀ e ∈ childrenToGo rev i o, EntryOk cs base e := by
  induction rev generalizing i o with
  | nil => simp [childrenToGo]
  | cons c rest ih =>
    intro e he
    -- `c` is child `i - 1`
    have hpos : 0 < i := by
      cases i with
      | zero => simp at hrev
      | succ n => omega
    have htake : cs.take i = (cs.take (i - 1)) ++ [c] := by
      have h1 : (cs.take i).reverse = c :: rest := hrev.symm
      have h2 : cs.take i = (c :: rest).reverse := by rw [← h1, List.reverse_reverse]
      have hlt : i - 1 < cs.length := by omega
      have h3 : cs.take i = cs.take (i - 1) ++ [cs[i - 1]] := by
        have := List.take_succ_eq_append_getElem hlt
        rwa [show i - 1 + 1 = i by omega] at this
      rw [h3] at h2
      simp only [List.reverse_cons] at h2
      have := List.append_inj_right' h2 (by simp)
      simp at this
      rw [h3, this]
    have hci : cs[i - 1]? = some c := by
      have hlt : i - 1 < cs.length := by omega
      have h3 : cs.take i = cs.take (i - 1) ++ [cs[i - 1]] := by
        have := List.take_succ_eq_append_getElem hlt
        rwa [show i - 1 + 1 = i by omega] at this
      rw [h3] at htake
      have := List.append_inj_right' htake (by simp)
      simp at this
      rw [List.getElem?_eq_getElem hlt, this]
    have hoff : offsetIn cs i = offsetIn cs (i - 1) + c.len := by
      have := offsetIn_succ cs (i - 1) c hci
      rwa [show i - 1 + 1 = i by omega] at this
    simp only [childrenToGo, List.mem_cons] at he
    rcases he with rfl | he
    · exact ⟨hci, by simp only; omega⟩
    · refine ih (i - 1) (o - c.len) (by omega) ?_ (by omega) e he
      have h1 : (cs.take i).reverse = c :: rest := hrev.symm
      rw [htake] at h1
      simp at h1
      exact h1.symm

/-- `children_to(end, offset)` is canonical — and never underflows — when `offset` is the canonical
    offset of child `end` (the end of child `end - 1`) -/
theorem childrenTo_ok (cs : List Green) (base endIdx off : Nat) (hle : endIdx ≤ cs.length)
    (h : off = base + offsetIn cs endIdx) :
    ∀ e ∈ childrenTo cs endIdx off, EntryOk cs base e := by
  unfold childrenTo
  rw [Nat.min_eq_left hle]
  exact childrenToGo_ok cs base _ endIdx off hle rfl h

theorem firstNode_mem {l : List (Green × Nat × Nat)} {e : Green × Nat × Nat} (h : firstNode l = some e) : e ∈ l := by
  induction l with
  | nil => simp [firstNode] at h
  | cons x xs ih =>
    obtain ⟨g, i, o⟩ := x
    simp only [firstNode] at h
    split at h
    · cases h; simp
    · exact List.mem_cons_of_mem _ (ih h)

/-! ### the offset cache -/

/-- every stored offset is the canonical one -/
def Canon (r : Red) : Prop := ∀ p o, (p, o) ∈ r.slots → canon r.root p = some o

theorem Canon.new (g : Green) : Canon (Red.new g) := by simp [Canon, Red.new]

theorem Canon.start {r : Red} (h : Canon r) {p : Path} {o : Nat} (hs : r.start p = some o) :
    canon r.root p = some o := by
  unfold Red.start at hs
  split at hs
  · rename_i hp; subst hp; cases hs; rfl
  · exact h p o (lookup_mem' hs)
where
  lookup_mem' {l : List (Path × Nat)} {a : Path} {b : Nat} (h : l.lookup a = some b) : (a, b) ∈ l := by
    induction l with
    | nil => simp at h
    | cons x xs ih =>
      obtain ⟨k, v⟩ := x
      simp only [List.lookup_cons] at h
      by_cases hk : a == k
      · simp [hk] at h; have := eq_of_beq hk; subst this; subst h; simp
      · simp [hk] at h; exact List.mem_cons_of_mem _ (ih h)

theorem Canon.getOrAdd {r : Red} (h : Canon r) (p : Path) (i off : Nat)
    (hoff : canon r.root (p ++ [i]) = some off) : Canon (r.getOrAdd p i off) ∧ (r.getOrAdd p i off).root = r.root := by
  unfold Red.getOrAdd
  split
  · exact ⟨h, rfl⟩
  · refine ⟨?_, rfl⟩
    intro q o hm
    simp only [List.mem_cons, Prod.mk.injEq] at hm
    rcases hm with ⟨rfl, rfl⟩ | hm
    · exact hoff
    · exact h q o hm

/-- materialising a route entry that is right for the children of the node at `p` keeps the cache
    canonical -/
theorem Canon.pick {r : Red} (h : Canon r) (p : Path) (t : Green) (base : Nat)
    (hg : r.green p = some t) (hb : canon r.root p = some base)
    (cand : Option (Green × Nat × Nat)) (hc : ∀ e, cand = some e → EntryOk t.children base e) :
    Canon (r.pick p cand).2 ∧ (r.pick p cand).2.root = r.root := by
  cases cand with
  | none => exact ⟨h, rfl⟩
  | some e =>
    obtain ⟨c, i, o⟩ := e
    obtain ⟨h1, h2⟩ := hc _ rfl
    simp only at h1 h2
    have := canon_append_single r.root p i t c base hg h1 hb
    exact Canon.getOrAdd h p i o (by rw [this, h2])

end Cst

namespace Cst

mutual
/-- every node's stored length is the sum of its children's stored lengths -/
def LenOk : Green → Prop
  | .tok .. => True
  | .node _ _ l _ cs => l = sumLen cs ∧ LenOkL cs
def LenOkL : List Green → Prop
  | [] => True
  | g :: gs => LenOk g ∧ LenOkL gs
end

mutual
theorem LenOk_of_GWf {cfg : Cfg} {I : Interner} : (g : Green) → GWf cfg I g → LenOk g
  | .tok .., _ => trivial
  | .node _ _ _ _ cs, h => by
    simp only [GWf] at h
    exact ⟨h.1, LenOkL_of_GWfL cs h.2.2⟩
theorem LenOkL_of_GWfL {cfg : Cfg} {I : Interner} : (gs : List Green) → GWfL cfg I gs → LenOkL gs
  | [], _ => trivial
  | g :: gs, h => ⟨LenOk_of_GWf g h.1, LenOkL_of_GWfL gs h.2⟩
end

theorem LenOkL_getElem {cs : List Green} (h : LenOkL cs) {i : Nat} {c : Green} (hc : cs[i]? = some c) : LenOk c := by
  induction cs generalizing i with
  | nil => simp at hc
  | cons x xs ih =>
    cases i with
    | zero => simp at hc; subst hc; exact h.1
    | succ n => simp at hc; exact ih h.2 hc

theorem LenOk_children {g : Green} (h : LenOk g) : LenOkL g.children := by
  cases g with
  | tok _ _ _ _ => trivial
  | node _ _ _ _ cs => exact h.2

theorem LenOk_get {g : Green} (h : LenOk g) {p : Path} {t : Green} (ht : Green.get g p = some t) : LenOk t := by
  induction p generalizing g with
  | nil => simp [Green.get] at ht; subst ht; exact h
  | cons i p ih =>
    simp only [Green.get] at ht
    cases hc : g.children[i]? with
    | none => simp [hc] at ht
    | some c => simp only [hc] at ht; exact ih (LenOkL_getElem (LenOk_children h) hc) ht

theorem LenOk_len {g : Green} (h : LenOk g) (hn : g.isNode = true) : g.len = sumLen g.children := by
  cases g with
  | tok _ _ _ _ => simp [Green.isNode] at hn
  | node _ _ _ _ cs => exact h.1

theorem token_children {g : Green} (hn : g.isNode = false) : g.children = [] := by
  cases g with
  | tok _ _ _ _ => rfl
  | node _ _ _ _ _ => simp [Green.isNode] at hn

/-! ### candidates of the internal routes -/

theorem cand_from {cs : List Green} {base start off : Nat} (h : off = base + offsetIn cs start)
    {e : Green × Nat × Nat} :
    (firstNode (childrenFrom cs start off) = some e → EntryOk cs base e) ∧
    ((childrenFrom cs start off).head? = some e → EntryOk cs base e) :=
  ⟨fun he => childrenFrom_ok cs base start off h e (firstNode_mem he),
   fun he => childrenFrom_ok cs base start off h e (List.mem_of_head? he)⟩

theorem cand_to {cs : List Green} {base endIdx off : Nat} (hle : endIdx ≤ cs.length)
    (h : off = base + offsetIn cs endIdx) {e : Green × Nat × Nat} :
    (firstNode (childrenTo cs endIdx off) = some e → EntryOk cs base e) ∧
    ((childrenTo cs endIdx off).head? = some e → EntryOk cs base e) :=
  ⟨fun he => childrenTo_ok cs base endIdx off hle h e (firstNode_mem he),
   fun he => childrenTo_ok cs base endIdx off hle h e (List.mem_of_head? he)⟩

/-- the tree invariant carried through every history: canonical cache over a length-consistent
    green tree -/
structure RInv (r : Red) : Prop where
  canon : Canon r
  lens : LenOk r.root

theorem RInv.new (g : Green) (h : LenOk g) : RInv (Red.new g) := ⟨Canon.new g, h⟩

/-- `f` keeps the invariant and the green tree -/
def Keeps {α : Type} (f : Red → α × Red) : Prop := ∀ r, RInv r → RInv (f r).2 ∧ (f r).2.root = r.root

theorem keeps_of {r : Red} (h : RInv r) {r' : Red} (hc : Canon r' ∧ r'.root = r.root) : RInv r' ∧ r'.root = r.root :=
  ⟨⟨hc.1, hc.2 ▸ h.lens⟩, hc.2⟩

theorem node_end {r : Red} (h : RInv r) {p : Path} {g : Green} (hg : r.green p = some g) :
    g.len = offsetIn g.children g.children.length ∨ g.isNode = false := by
  cases hn : g.isNode with
  | false => exact Or.inr rfl
  | true =>
    left
    rw [offsetIn_length _ _ (Nat.le_refl _)]
    exact LenOk_len (LenOk_get h.lens hg) hn

theorem firstChild_keeps (p : Path) : Keeps (fun r => r.firstChild p) := by
  intro r h
  simp only [Red.firstChild]
  cases hg : r.green p with
  | none => exact ⟨h, rfl⟩
  | some g =>
    cases hs : r.start p with
    | none => exact ⟨h, rfl⟩
    | some o =>
      exact keeps_of h (Canon.pick h.canon p g o hg (h.canon.start hs) _
        (fun e he => (cand_from (by simp [offsetIn_zero])).1 he))

theorem firstChildOrToken_keeps (p : Path) : Keeps (fun r => r.firstChildOrToken p) := by
  intro r h
  simp only [Red.firstChildOrToken]
  cases hg : r.green p with
  | none => exact ⟨h, rfl⟩
  | some g =>
    cases hs : r.start p with
    | none => exact ⟨h, rfl⟩
    | some o =>
      exact keeps_of h (Canon.pick h.canon p g o hg (h.canon.start hs) _
        (fun e he => (cand_from (by simp [offsetIn_zero])).2 he))

theorem lastChild_keeps (p : Path) : Keeps (fun r => r.lastChild p) := by
  intro r h
  simp only [Red.lastChild]
  cases hg : r.green p with
  | none => exact ⟨h, rfl⟩
  | some g =>
    cases hs : r.start p with
    | none => exact ⟨h, rfl⟩
    | some o =>
      rcases node_end h hg with hl | hl
      · exact keeps_of h (Canon.pick h.canon p g o hg (h.canon.start hs) _
          (fun e he => (cand_to (Nat.le_refl _) (by omega)).1 he))
      · have : g.children = [] := token_children hl
        simp only [this, List.length_nil, childrenTo, List.take_nil, List.reverse_nil, childrenToGo, firstNode]
        exact ⟨h, rfl⟩

theorem lastChildOrToken_keeps (p : Path) : Keeps (fun r => r.lastChildOrToken p) := by
  intro r h
  simp only [Red.lastChildOrToken]
  cases hg : r.green p with
  | none => exact ⟨h, rfl⟩
  | some g =>
    cases hs : r.start p with
    | none => exact ⟨h, rfl⟩
    | some o =>
      rcases node_end h hg with hl | hl
      · exact keeps_of h (Canon.pick h.canon p g o hg (h.canon.start hs) _
          (fun e he => (cand_to (Nat.le_refl _) (by omega)).2 he))
      · have : g.children = [] := token_children hl
        simp only [this, List.length_nil, childrenTo, List.take_nil, List.reverse_nil, childrenToGo, List.head?_nil]
        exact ⟨h, rfl⟩

/-- the documented argument of the indexed look-ups: `offset` is the canonical offset of child
    `n + 1` (= the end of child `n`) resp. of child `n` (= its start) of the node at `p` -/
def DocArg (r : Red) (p : Path) (idx off : Nat) : Prop :=
  ∀ g base, r.green p = some g → canon r.root p = some base → off = base + offsetIn g.children idx

theorem nextChildAfter_keeps {r : Red} (h : RInv r) (p : Path) (n off : Nat) (hd : DocArg r p (n + 1) off)
    (hm : ∃ o, canon r.root p = some o) :
    RInv (r.nextChildAfter p n off).2 ∧ (r.nextChildAfter p n off).2.root = r.root := by
  simp only [Red.nextChildAfter]
  cases hg : r.green p with
  | none => exact ⟨h, rfl⟩
  | some g =>
    obtain ⟨o, hs⟩ := hm
    exact keeps_of h (Canon.pick h.canon p g o hg hs _
      (fun e he => (cand_from (hd g o hg hs)).1 he))

theorem nextChildOrTokenAfter_keeps {r : Red} (h : RInv r) (p : Path) (n off : Nat) (hd : DocArg r p (n + 1) off)
    (hm : ∃ o, canon r.root p = some o) :
    RInv (r.nextChildOrTokenAfter p n off).2 ∧ (r.nextChildOrTokenAfter p n off).2.root = r.root := by
  simp only [Red.nextChildOrTokenAfter]
  cases hg : r.green p with
  | none => exact ⟨h, rfl⟩
  | some g =>
    obtain ⟨o, hs⟩ := hm
    exact keeps_of h (Canon.pick h.canon p g o hg hs _
      (fun e he => (cand_from (hd g o hg hs)).2 he))

theorem prevChildBefore_keeps {r : Red} (h : RInv r) (p : Path) (n off : Nat) (hd : DocArg r p n off)
    (hm : ∃ o, canon r.root p = some o) (hn : ∀ g, r.green p = some g → n ≤ g.children.length) :
    RInv (r.prevChildBefore p n off).2 ∧ (r.prevChildBefore p n off).2.root = r.root := by
  simp only [Red.prevChildBefore]
  cases hg : r.green p with
  | none => exact ⟨h, rfl⟩
  | some g =>
    obtain ⟨o, hs⟩ := hm
    exact keeps_of h (Canon.pick h.canon p g o hg hs _
      (fun e he => (cand_to (hn g hg) (hd g o hg hs)).1 he))

theorem prevChildOrTokenBefore_keeps {r : Red} (h : RInv r) (p : Path) (n off : Nat) (hd : DocArg r p n off)
    (hm : ∃ o, canon r.root p = some o) (hn : ∀ g, r.green p = some g → n ≤ g.children.length) :
    RInv (r.prevChildOrTokenBefore p n off).2 ∧ (r.prevChildOrTokenBefore p n off).2.root = r.root := by
  simp only [Red.prevChildOrTokenBefore]
  cases hg : r.green p with
  | none => exact ⟨h, rfl⟩
  | some g =>
    obtain ⟨o, hs⟩ := hm
    exact keeps_of h (Canon.pick h.canon p g o hg hs _
      (fun e he => (cand_to (hn g hg) (hd g o hg hs)).2 he))

end Cst

namespace Cst

theorem split_spec {p q : Path} {i : Nat} (h : Red.split p = some (q, i)) : p = q ++ [i] := by
  unfold Red.split at h
  cases hl : p.getLast? with
  | none => simp [hl] at h
  | some j =>
    simp only [hl, Option.some.injEq, Prod.mk.injEq] at h
    obtain ⟨rfl, rfl⟩ := h
    obtain ⟨ys, e⟩ := List.getLast?_eq_some_iff.mp hl
    subst e; simp

/-- a canonical child offset decomposes into the parent's canonical offset + the sibling offset -/
theorem canon_parent (g : Green) (q : Path) (i s : Nat) (h : canon g (q ++ [i]) = some s) :
    ∃ base t c, Green.get g q = some t ∧ t.children[i]? = some c ∧ canon g q = some base ∧
      s = base + offsetIn t.children i := by
  induction q generalizing g s with
  | nil =>
    simp only [List.nil_append, canon] at h
    cases hc : g.children[i]? with
    | none => simp [hc] at h
    | some c =>
      simp only [hc, canon, Option.map_some, Option.some.injEq] at h
      exact ⟨0, g, c, rfl, hc, rfl, by omega⟩
  | cons j q ih =>
    simp only [List.cons_append, canon] at h
    cases hj : g.children[j]? with
    | none => simp [hj] at h
    | some cj =>
      simp only [hj] at h
      cases hq : canon cj (q ++ [i]) with
      | none => simp [hq] at h
      | some s' =>
        simp only [hq, Option.map_some, Option.some.injEq] at h
        obtain ⟨base, t, c, h1, h2, h3, h4⟩ := ih cj s' hq
        refine ⟨base + offsetIn g.children j, t, c, by simp [Green.get, hj, h1], h2, by simp [canon, hj, h3], by omega⟩

/-- everything the sibling hops need to know about a materialised non-root element -/
theorem sibling_facts {r : Red} (h : RInv r) {p q : Path} {i s e : Nat}
    (hsplit : Red.split p = some (q, i)) (hr : r.range p = some (s, e)) :
    ∃ base t c, r.green q = some t ∧ t.children[i]? = some c ∧ canon r.root q = some base ∧
      s = base + offsetIn t.children i ∧ e = base + offsetIn t.children (i + 1) := by
  have hp := split_spec hsplit
  unfold Red.range at hr
  cases hs : r.start p with
  | none => simp [hs] at hr
  | some o =>
    cases hg : r.green p with
    | none => simp [hs, hg] at hr
    | some c0 =>
      simp only [hs, hg, Option.some.injEq, Prod.mk.injEq] at hr
      obtain ⟨rfl, rfl⟩ := hr
      have hc := h.canon.start hs
      rw [hp] at hc
      obtain ⟨base, t, c, h1, h2, h3, h4⟩ := canon_parent r.root q i o hc
      have : c = c0 := by
        have h5 : r.green p = (Green.get r.root q).bind (fun t => t.children[i]?) := by
          unfold Red.green; rw [hp, get_append_single]
        rw [h1] at h5; simp only [Option.bind_some] at h5; rw [h2, hg] at h5
        exact (Option.some.inj h5).symm
      subst this
      exact ⟨base, t, c, h1, h2, h3, h4, by rw [offsetIn_succ _ _ _ h2]; omega⟩

theorem nextSibling_keeps (p : Path) : Keeps (fun r => r.nextSibling p) := by
  intro r h
  simp only [Red.nextSibling]
  cases hsp : Red.split p with
  | none => exact ⟨h, rfl⟩
  | some qi =>
    obtain ⟨q, i⟩ := qi
    cases hr : r.range p with
    | none => exact ⟨h, rfl⟩
    | some se =>
      obtain ⟨s, e⟩ := se
      obtain ⟨base, t, c, h1, h2, h3, h4, h5⟩ := sibling_facts h hsp hr
      exact nextChildAfter_keeps h q i e (fun g b hg hb => by
        rw [h1] at hg; cases hg; rw [h3] at hb; cases hb; exact h5) ⟨base, h3⟩

theorem nextSiblingOrToken_keeps (p : Path) : Keeps (fun r => r.nextSiblingOrToken p) := by
  intro r h
  simp only [Red.nextSiblingOrToken]
  cases hsp : Red.split p with
  | none => exact ⟨h, rfl⟩
  | some qi =>
    obtain ⟨q, i⟩ := qi
    cases hr : r.range p with
    | none => exact ⟨h, rfl⟩
    | some se =>
      obtain ⟨s, e⟩ := se
      obtain ⟨base, t, c, h1, h2, h3, h4, h5⟩ := sibling_facts h hsp hr
      exact nextChildOrTokenAfter_keeps h q i e (fun g b hg hb => by
        rw [h1] at hg; cases hg; rw [h3] at hb; cases hb; exact h5) ⟨base, h3⟩

theorem prevSibling_keeps (p : Path) : Keeps (fun r => r.prevSibling p) := by
  intro r h
  simp only [Red.prevSibling]
  cases hsp : Red.split p with
  | none => exact ⟨h, rfl⟩
  | some qi =>
    obtain ⟨q, i⟩ := qi
    cases hr : r.range p with
    | none => exact ⟨h, rfl⟩
    | some se =>
      obtain ⟨s, e⟩ := se
      obtain ⟨base, t, c, h1, h2, h3, h4, h5⟩ := sibling_facts h hsp hr
      exact prevChildBefore_keeps h q i s (fun g b hg hb => by
        rw [h1] at hg; cases hg; rw [h3] at hb; cases hb; exact h4) ⟨base, h3⟩
        (fun g hg => by rw [h1] at hg; cases hg; exact Nat.le_of_lt (List.getElem?_eq_some_iff.mp h2).1)

theorem prevSiblingOrToken_keeps (p : Path) : Keeps (fun r => r.prevSiblingOrToken p) := by
  intro r h
  simp only [Red.prevSiblingOrToken]
  cases hsp : Red.split p with
  | none => exact ⟨h, rfl⟩
  | some qi =>
    obtain ⟨q, i⟩ := qi
    cases hr : r.range p with
    | none => exact ⟨h, rfl⟩
    | some se =>
      obtain ⟨s, e⟩ := se
      obtain ⟨base, t, c, h1, h2, h3, h4, h5⟩ := sibling_facts h hsp hr
      exact prevChildOrTokenBefore_keeps h q i s (fun g b hg hb => by
        rw [h1] at hg; cases hg; rw [h3] at hb; cases hb; exact h4) ⟨base, h3⟩
        (fun g hg => by rw [h1] at hg; cases hg; exact Nat.le_of_lt (List.getElem?_eq_some_iff.mp h2).1)

/-! ### `iter::successors` chains and walks built from invariant-keeping steps -/

theorem chain_keeps (step : Red → Path → Option Path × Red) (hstep : ∀ p, Keeps (fun r => step r p))
    (n : Nat) (p : Path) : Keeps (fun r => Red.chain step n r p) := by
  induction n generalizing p with
  | zero => intro r h; exact ⟨h, rfl⟩
  | succ n ih =>
    intro r h
    simp only [Red.chain]
    have hs : RInv (step r p).2 ∧ (step r p).2.root = r.root := hstep p r h
    cases hres : step r p with
    | mk o r1 =>
      rw [hres] at hs
      cases o with
      | none => exact hs
      | some q =>
        have : RInv (Red.chain step n r1 q).2 ∧ (Red.chain step n r1 q).2.root = r1.root := ih q r1 hs.1
        simp only
        exact ⟨this.1, this.2.trans hs.2⟩

theorem siblings_keeps (p : Path) (next : Bool) : Keeps (fun r => r.siblings p next) := by
  intro r h
  simp only [Red.siblings]
  cases next
  · exact chain_keeps _ prevSibling_keeps _ p r h
  · exact chain_keeps _ nextSibling_keeps _ p r h

theorem siblingsWithTokens_keeps (p : Path) (next : Bool) : Keeps (fun r => r.siblingsWithTokens p next) := by
  intro r h
  simp only [Red.siblingsWithTokens]
  cases next
  · exact chain_keeps _ prevSiblingOrToken_keeps _ p r h
  · exact chain_keeps _ nextSiblingOrToken_keeps _ p r h

theorem walkNextT_keeps (start : Path) (e : Red.WE) : Keeps (fun r => Red.walkNextT start r e) := by
  intro r h
  cases e with
  | enter p =>
    simp only [Red.walkNextT]
    cases hg : r.green p with
    | none => exact ⟨h, rfl⟩
    | some g =>
      simp only
      split
      · have : RInv (r.firstChildOrToken p).2 ∧ (r.firstChildOrToken p).2.root = r.root := firstChildOrToken_keeps p r h
        cases hres : r.firstChildOrToken p with
        | mk o r1 => rw [hres] at this; cases o <;> exact this
      · exact ⟨h, rfl⟩
  | leave p =>
    simp only [Red.walkNextT]
    split
    · exact ⟨h, rfl⟩
    · have : RInv (r.nextSiblingOrToken p).2 ∧ (r.nextSiblingOrToken p).2.root = r.root := nextSiblingOrToken_keeps p r h
      cases hres : r.nextSiblingOrToken p with
      | mk o r1 =>
        rw [hres] at this
        cases o with
        | some s => exact this
        | none => simp only; cases Red.parent p <;> exact this

theorem walkNextN_keeps (start : Path) (e : Red.WE) : Keeps (fun r => Red.walkNextN start r e) := by
  intro r h
  cases e with
  | enter p =>
    simp only [Red.walkNextN]
    have : RInv (r.firstChild p).2 ∧ (r.firstChild p).2.root = r.root := firstChild_keeps p r h
    cases hres : r.firstChild p with
    | mk o r1 => rw [hres] at this; cases o <;> exact this
  | leave p =>
    simp only [Red.walkNextN]
    split
    · exact ⟨h, rfl⟩
    · have : RInv (r.nextSibling p).2 ∧ (r.nextSibling p).2.root = r.root := nextSibling_keeps p r h
      cases hres : r.nextSibling p with
      | mk o r1 =>
        rw [hres] at this
        cases o with
        | some s => exact this
        | none => simp only; cases Red.parent p <;> exact this

theorem walk_keeps (next : Red → Red.WE → Option Red.WE × Red) (hnext : ∀ e, Keeps (fun r => next r e))
    (n : Nat) (e : Red.WE) : Keeps (fun r => Red.walk next n r e) := by
  induction n generalizing e with
  | zero => intro r h; exact ⟨h, rfl⟩
  | succ n ih =>
    intro r h
    simp only [Red.walk]
    have hs : RInv (next r e).2 ∧ (next r e).2.root = r.root := hnext e r h
    cases hres : next r e with
    | mk o r1 =>
      rw [hres] at hs
      cases o with
      | none => exact hs
      | some e' =>
        have : RInv (Red.walk next n r1 e').2 ∧ (Red.walk next n r1 e').2.root = r1.root := ih e' r1 hs.1
        simp only
        exact ⟨this.1, this.2.trans hs.2⟩

theorem preorderWithTokens_keeps (p : Path) : Keeps (fun r => r.preorderWithTokens p) :=
  fun r h => walk_keeps _ (walkNextT_keeps p) _ _ r h

theorem preorder_keeps (p : Path) : Keeps (fun r => r.preorder p) :=
  fun r h => walk_keeps _ (walkNextN_keeps p) _ _ r h

theorem descendantsWithTokens_keeps (p : Path) : Keeps (fun r => r.descendantsWithTokens p) :=
  fun r h => preorderWithTokens_keeps p r h

theorem descendants_keeps (p : Path) : Keeps (fun r => r.descendants p) :=
  fun r h => preorder_keeps p r h

end Cst

namespace Cst

/-- iterator invariant: the remaining children are the tail from `index`, and the running offset is
    the canonical offset of child `index` -/
def ItOk (r : Red) (it : Red.It) : Prop :=
  ∃ g base, r.green it.parent = some g ∧ canon r.root it.parent = some base ∧
    it.rest = g.children.drop it.index ∧ it.offset = base + offsetIn g.children it.index

theorem iterNew_ok {r : Red} (h : RInv r) {p : Path} {it : Red.It} (hi : Red.iterNew r p = some it) : ItOk r it := by
  unfold Red.iterNew at hi
  cases hg : r.green p with
  | none => simp [hg] at hi
  | some g =>
    cases hs : r.start p with
    | none => simp [hg, hs] at hi
    | some o =>
      simp only [hg, hs, Option.some.injEq] at hi
      subst hi
      exact ⟨g, o, hg, h.canon.start hs, by simp, by simp [offsetIn_zero]⟩

theorem ItOk.step {r : Red} (h : RInv r) {it : Red.It} (hi : ItOk r it) (c : Green) (rest : List Green)
    (hr : it.rest = c :: rest) :
    RInv (r.getOrAdd it.parent it.index it.offset) ∧ (r.getOrAdd it.parent it.index it.offset).root = r.root ∧
    ItOk (r.getOrAdd it.parent it.index it.offset) { it with rest := rest, index := it.index + 1, offset := it.offset + c.len } ∧
    ItOk r { it with rest := rest, index := it.index + 1, offset := it.offset + c.len } := by
  obtain ⟨g, base, hg, hb, hrest, hoff⟩ := hi
  have hci : g.children[it.index]? = some c := by
    have := congrArg List.head? hrest; rw [hr] at this; simp [List.head?_drop] at this; exact this.symm
  have hc := canon_append_single r.root it.parent it.index g c base hg hci hb
  have hk := Canon.getOrAdd h.canon it.parent it.index it.offset (by rw [hc, hoff])
  have hrest' : rest = g.children.drop (it.index + 1) := by
    have := congrArg List.tail hrest; rw [hr] at this; simpa [List.tail_drop] using this
  have hoff' : it.offset + c.len = base + offsetIn g.children (it.index + 1) := by
    rw [offsetIn_succ _ _ _ hci]; omega
  refine ⟨⟨hk.1, hk.2 ▸ h.lens⟩, hk.2, ?_, ?_⟩
  · exact ⟨g, base, by unfold Red.green at hg ⊢; rw [hk.2]; exact hg, by rw [hk.2]; exact hb, hrest', hoff'⟩
  · exact ⟨g, base, hg, hb, hrest', hoff'⟩

theorem nextElem_keeps {r : Red} (h : RInv r) {it : Red.It} (hi : ItOk r it) :
    RInv (it.nextElem r).2.2 ∧ (it.nextElem r).2.2.root = r.root ∧ ItOk (it.nextElem r).2.2 (it.nextElem r).2.1 := by
  unfold Red.It.nextElem
  cases hr : it.rest with
  | nil => exact ⟨h, rfl, hi⟩
  | cons c rest =>
    have := ItOk.step h hi c rest hr
    exact ⟨this.1, this.2.1, this.2.2.1⟩

theorem nextNode_keeps (fuel : Nat) {r : Red} (h : RInv r) {it : Red.It} (hi : ItOk r it) :
    RInv (it.nextNode r fuel).2.2 ∧ (it.nextNode r fuel).2.2.root = r.root ∧
      ItOk (it.nextNode r fuel).2.2 (it.nextNode r fuel).2.1 := by
  induction fuel generalizing it with
  | zero => exact ⟨h, rfl, hi⟩
  | succ n ih =>
    unfold Red.It.nextNode
    cases hr : it.rest with
    | nil => exact ⟨h, rfl, hi⟩
    | cons c rest =>
      have := ItOk.step h hi c rest hr
      simp only
      split
      · exact ⟨this.1, this.2.1, this.2.2.1⟩
      · exact ih this.2.2.2

theorem collectElems_keeps (fuel : Nat) (it : Red.It) : ∀ r, RInv r → ItOk r it →
    RInv (Red.collectElems it r fuel).2 ∧ (Red.collectElems it r fuel).2.root = r.root := by
  induction fuel generalizing it with
  | zero => intro r h _; exact ⟨h, rfl⟩
  | succ n ih =>
    intro r h hi
    simp only [Red.collectElems]
    have hs := nextElem_keeps h hi
    cases hres : it.nextElem r with
    | mk o rest =>
      obtain ⟨it', r'⟩ := rest
      rw [hres] at hs
      cases o with
      | none => exact ⟨hs.1, hs.2.1⟩
      | some p =>
        have := ih it' r' hs.1 hs.2.2
        simp only
        exact ⟨this.1, this.2.trans hs.2.1⟩

theorem collectNodes_keeps (fuel : Nat) (it : Red.It) : ∀ r, RInv r → ItOk r it →
    RInv (Red.collectNodes it r fuel).2 ∧ (Red.collectNodes it r fuel).2.root = r.root := by
  induction fuel generalizing it with
  | zero => intro r h _; exact ⟨h, rfl⟩
  | succ n ih =>
    intro r h hi
    simp only [Red.collectNodes]
    have hs := nextNode_keeps (it.rest.length + 1) h hi
    cases hres : it.nextNode r (it.rest.length + 1) with
    | mk o rest =>
      obtain ⟨it', r'⟩ := rest
      rw [hres] at hs
      cases o with
      | none => exact ⟨hs.1, hs.2.1⟩
      | some p =>
        have := ih it' r' hs.1 hs.2.2
        simp only
        exact ⟨this.1, this.2.trans hs.2.1⟩

theorem childrenWithTokens_keeps (p : Path) : Keeps (fun r => r.childrenWithTokens p) := by
  intro r h
  simp only [Red.childrenWithTokens]
  cases hi : Red.iterNew r p with
  | none => exact ⟨h, rfl⟩
  | some it => exact collectElems_keeps _ it r h (iterNew_ok h hi)

theorem children_keeps (p : Path) : Keeps (fun r => r.children p) := by
  intro r h
  simp only [Red.children]
  cases hi : Red.iterNew r p with
  | none => exact ⟨h, rfl⟩
  | some it => exact collectNodes_keeps _ it r h (iterNew_ok h hi)

end Cst
