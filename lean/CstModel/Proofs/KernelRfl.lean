/-
  Proofs/KernelRfl — `kernel_rfl`: closes `lhs = rhs` by `Eq.refl lhs` and leaves the definitional-equality check
  to the *kernel*, whose evaluator is much faster than the elaborator's on the long reductions that evaluating a
  transcribed function body is.  Nothing is trusted: the term is `Eq.refl lhs`, and the kernel rejects the
  declaration when the two sides are not definitionally equal (no axiom, no `native_decide`).
-/
import Lean
namespace Cst
open Lean Elab Tactic Meta in
elab "kernel_rfl" : tactic => do
  let g ← getMainGoal
  let t ← instantiateMVars (← g.getType)
  let some (_, lhs, _) := t.eq? | throwError "kernel_rfl: the goal is not an equation"
  g.assign (← mkEqRefl lhs)
end Cst
