import CstModel.Model.Teardown
namespace Cst.Teardown

mutual
theorem frees_tearSlot : (x : IT) → (tearSlot x).filterMap Ev.freed = nodesOf x
  | .tok => rfl
  | .node s ks => by
    simp only [tearSlot, nodesOf, List.filterMap_append, frees_tearL (some s) ks]
    rfl
theorem frees_tearL (o : Option Nat) : (ks : ITs) → (tearL o ks).filterMap Ev.freed = nodesOfL ks
  | .nil => rfl
  | .skip r => by
    simp only [tearL, nodesOfL, List.filterMap_cons, Ev.freed]
    exact frees_tearL o r
  | .full x r => by
    simp only [tearL, nodesOfL, List.filterMap_cons, Ev.freed, List.filterMap_append, frees_tearSlot x, frees_tearL o r]
end

mutual
theorem decs_tearSlot : (x : IT) → (tearSlot x).count .dec = 2 * (nodesOf x).length + nToks x
  | .tok => rfl
  | .node s ks => by
    simp only [tearSlot, nodesOf, nToks, List.count_append, decs_tearL (some s) ks, List.length_append, List.length_cons,
      List.length_nil]
    have : List.count Ev.dec [Ev.dec, Ev.free s, Ev.dec] = 2 := by simp [List.count_cons]
    omega
theorem decs_tearL (o : Option Nat) : (ks : ITs) → (tearL o ks).count .dec = 2 * (nodesOfL ks).length + nToksL ks
  | .nil => rfl
  | .skip r => by
    simp only [tearL, nodesOfL, nToksL]
    rw [List.count_cons_of_ne (by simp)]
    exact decs_tearL o r
  | .full x r => by
    simp only [tearL, nodesOfL, nToksL, List.length_append]
    rw [List.count_cons_of_ne (by simp), List.count_append, decs_tearSlot x, decs_tearL o r]
    omega
end

/-- scanning an element's teardown in front of `rest`: safe exactly when `rest` is, with the element's node blocks
    added to the freed set -/
theorem safe_dec (F : List Nat) (r : List Ev) : safe F (.dec :: r) = safe F r := rfl

mutual
theorem safe_tearSlot : (x : IT) → (F : List Nat) → (rest : List Ev) →
    (∀ s, s ∈ nodesOf x → s ∉ F) → (nodesOf x).Nodup →
    safe F (tearSlot x ++ rest) = safe ((nodesOf x).reverse ++ F) rest
  | .tok, F, rest, _, _ => by simp [tearSlot, nodesOf, safe]
  | .node s ks, F, rest, hd, hn => by
    simp only [nodesOf] at hd hn
    have hn' := List.nodup_append.mp hn
    have hsF : s ∉ F := hd s (by simp)
    have hsK : s ∉ nodesOfL ks := fun h => hn'.2.2 s h s (by simp) rfl
    simp only [tearSlot, List.append_assoc]
    rw [safe_tearL (some s) ks F _ (fun t ht => hd t (by simp [ht])) hn'.1 (fun t ht => by cases ht; exact ⟨hsF, hsK⟩)]
    simp only [List.cons_append, List.nil_append, safe]
    have : ((nodesOfL ks).reverse ++ F).contains s = false := by
      simp only [List.contains_eq_mem, List.mem_append, List.mem_reverse, decide_eq_false_iff_not]
      intro h; rcases h with h | h
      · exact hsK h
      · exact hsF h
    simp only [this, Bool.not_false, Bool.true_and, nodesOf, List.reverse_append, List.reverse_cons, List.reverse_nil,
      List.nil_append, List.cons_append, List.append_assoc]
theorem safe_tearL (o : Option Nat) : (ks : ITs) → (F : List Nat) → (rest : List Ev) →
    (∀ s, s ∈ nodesOfL ks → s ∉ F) → (nodesOfL ks).Nodup → (∀ t, o = some t → t ∉ F ∧ t ∉ nodesOfL ks) →
    safe F (tearL o ks ++ rest) = safe ((nodesOfL ks).reverse ++ F) rest
  | .nil, F, rest, _, _, _ => by simp [tearL, nodesOfL]
  | .skip r, F, rest, hd, hn, ho => by
    simp only [tearL, nodesOfL, List.cons_append] at hd hn ho ⊢
    cases o with
    | none => simp only [safe]; exact safe_tearL none r F rest hd hn (by simp)
    | some t =>
      have := (ho t rfl).1
      simp only [safe, List.contains_eq_mem, this, decide_false, Bool.not_false, Bool.true_and]
      exact safe_tearL (some t) r F rest hd hn ho
  | .full x r, F, rest, hd, hn, ho => by
    simp only [nodesOfL] at hd hn ho
    have hn' := List.nodup_append.mp hn
    simp only [tearL, List.cons_append, List.append_assoc]
    have hx : ∀ s, s ∈ nodesOf x → s ∉ F := fun s hs => hd s (by simp [hs])
    have hstep : safe F (tearSlot x ++ (tearL o r ++ rest)) = safe ((nodesOfL (.full x r)).reverse ++ F) rest := by
      rw [safe_tearSlot x F _ hx hn'.1]
      rw [safe_tearL o r _ rest ?_ hn'.2.1 ?_]
      · simp only [nodesOfL, List.reverse_append, List.append_assoc]
      · intro s hs h
        simp only [List.mem_append, List.mem_reverse] at h
        rcases h with h | h
        · exact hn'.2.2 s h s hs rfl
        · exact hd s (by simp [hs]) h
      · intro t ht
        have := ho t ht
        refine ⟨?_, fun h => this.2 (by simp [h])⟩
        intro h
        simp only [List.mem_append, List.mem_reverse] at h
        rcases h with h | h
        · exact this.2 (by simp [h])
        · exact this.1 h
    cases o with
    | none => simp only [safe]; exact hstep
    | some t =>
      have := (ho t rfl).1
      simp only [safe, List.contains_eq_mem, this, decide_false, Bool.not_false, Bool.true_and]
      exact hstep
end

/-- **the whole teardown is safe**: no block is freed twice, none is dereferenced after it was freed, the root
    block and the counter cell go last -/
theorem tearRoot_safe (ks : ITs) (hn : (nodesOfL ks).Nodup) : safe [] (tearRoot ks) = true := by
  unfold tearRoot
  rw [safe_tearL none ks [] _ (by simp) hn (by simp)]
  simp [safe]

/-- **every installed node block is freed exactly once**: the frees are the installed node blocks, children first -/
theorem tearRoot_frees (ks : ITs) : (tearRoot ks).filterMap Ev.freed = nodesOfL ks := by
  unfold tearRoot
  rw [List.filterMap_append, frees_tearL]
  simp [Ev.freed]

theorem tearRoot_frees_count (ks : ITs) (hn : (nodesOfL ks).Nodup) (s : Nat) :
    ((tearRoot ks).filterMap Ev.freed).count s = if s ∈ nodesOfL ks then 1 else 0 := by
  rw [tearRoot_frees]
  exact hn.count

/-- **the decrements of a teardown**: two per installed node, one per installed token, one for the root copy
    (`Conc.teardownDecs`) -/
theorem tearRoot_decs (ks : ITs) : (tearRoot ks).count .dec = 2 * (nodesOfL ks).length + nToksL ks + 1 := by
  unfold tearRoot
  rw [List.count_append, decs_tearL]
  have : List.count Ev.dec [Ev.dec, Ev.freeRoot, Ev.freeCount] = 1 := by decide
  omega

/-- the counter only goes down from the value the triggering decrement left: no decrement of the teardown sees
    `1` again (no second teardown), as long as the counter does not wrap all the way round -/
theorem prevs_le (evs : List Ev) : ∀ (rc : Int) (p : Int), p ∈ prevs rc evs → p ≤ rc := by
  induction evs with
  | nil => intro rc p h; simp [prevs] at h
  | cons e r ih =>
    intro rc p h
    cases e with
    | dec =>
      simp only [prevs, List.mem_cons] at h
      rcases h with rfl | h
      · exact Int.le_refl _
      · have := ih _ _ h; omega
    | free _ => exact ih _ _ h
    | touch _ => exact ih _ _ h
    | freeRoot => exact ih _ _ h
    | freeCount => exact ih _ _ h

theorem no_second_teardown (ks : ITs) (p : Int) (h : p ∈ prevs 0 (tearRoot ks)) : p ≠ 1 := by
  have := prevs_le _ 0 p h; omega

end Cst.Teardown
