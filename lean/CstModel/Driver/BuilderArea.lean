import CstModel.Driver.Core
import CstModel.Generated.SourceFacts
namespace Cst.Drv

mutual
def headsG : Green → List String
  | .tok .. => []
  | .node _ k l h cs => s!"{k},{l},{h.toNat}" :: headsL cs
def headsL : List Green → List String
  | [] => []
  | g :: gs => headsG g ++ headsL gs
end

mutual
def idsG : Green → List Nat
  | .tok i .. => [i]
  | .node i _ _ _ cs => i :: idsL cs
def idsL : List Green → List Nat
  | [] => []
  | g :: gs => idsG g ++ idsL gs
end

def canonIds (m : List (Nat × Nat)) : List Nat → List (Nat × Nat) × List Nat
  | [] => (m, [])
  | i :: is =>
    match m.lookup i with
    | some c => let (m', r) := canonIds m is; (m', c :: r)
    | none =>
      let c := m.length
      let (m', r) := canonIds ((i, c) :: m) is
      (m', c :: r)

def withBuilder (s : DState) (f : Builder → Except Panic Builder) : DState × String :=
  match s.builder with
  | none => (s, "bad-op")
  | some (b, slot) =>
    match f b with
    | .ok b' => ({ s with builder := some (b', slot) }, "ok")
    | .error _ => (s, "panic")

def interOf (s : DState) (slot : Nat) : Option Interner :=
  match s.caches[slot]? with
  | some (some c) => some c.interner
  | _ => none

def builderStep (s : DState) : List String → Option (DState × String)
  | ["cache", backend] =>
    match backendCap SourceFacts.nIndices backend with
    | none => some (s, "bad-op")
    | some cap =>
      let n := s.caches.size
      some ({ s with caches := s.caches.push (some (Cache.empty (Interner.empty cap))) }, s!"c{n}")
  | ["builder", c] =>
    match parseRef 'c' c with
    | none => some (s, "bad-op")
    | some slot =>
      match s.caches[slot]?, s.builder with
      | some (some cache), none =>
        some ({ s with caches := s.caches.set! slot none, builder := some (Builder.new cache, slot), cps := #[] }, "ok")
      | _, _ => some (s, "bad-op")
  | ["start", k] =>
    match k.toNat? with
    | some k => some (withBuilder s fun b => .ok (b.startNode k))
    | none => some (s, "bad-op")
  | ["tok", k, hex] =>
    match k.toNat?, decodeText hex with
    | some k, some t =>
      match s.builder with
      | none => some (s, "bad-op")
      | some (b, slot) =>
        match b.tokenF s.cfg k t s.failNext with
        | (.ok b', f) => some ({ s with builder := some (b', slot), failNext := f }, "ok")
        | (.error _, f) => some ({ s with failNext := f }, "panic")
    | _, _ => some (s, "bad-op")
  | ["stok", k] =>
    match k.toNat? with
    | some k => some (withBuilder s fun b => b.staticToken s.cfg k)
    | none => some (s, "bad-op")
  | ["finish_node"] => some (withBuilder s fun b => b.finishNode s.cfg)
  | ["failnext"] => some ({ s with failNext := true }, "ok")
  | ["cp"] =>
    match s.builder with
    | none => some (s, "bad-op")
    | some (b, _) =>
      let n := s.cps.size
      some ({ s with cps := s.cps.push b.checkpoint }, s!"k{n} {b.checkpoint.1} {b.checkpoint.2}")
  | ["start_at", kref, k] =>
    match parseRef 'k' kref, k.toNat? with
    | some i, some k =>
      match s.cps[i]? with
      | some cp => some (withBuilder s fun b => b.startNodeAt cp k)
      | none => some (s, "bad-op")
    | _, _ => some (s, "bad-op")
  | ["revert", kref] =>
    match parseRef 'k' kref with
    | some i =>
      match s.cps[i]? with
      | some cp => some (withBuilder s fun b => b.revertTo cp)
      | none => some (s, "bad-op")
    | none => some (s, "bad-op")
  | ["finish"] =>
    match s.builder with
    | none => some (s, "bad-op")
    | some (b, slot) =>
      match b.finish with
      | .error _ => some ({ s with builder := none }, "panic")
      | .ok (g, c) =>
        let n := s.greens.size
        let s' := { s with builder := none, caches := s.caches.set! slot (some c), greens := s.greens.push (g, slot) }
        match resolveG s.cfg c.interner g with
        | some t => some (s', s!"g{n} {dumpT t}")
        | none => some (s', s!"g{n} unresolvable")
  | ["dump", gref] =>
    match parseRef 'g' gref with
    | some i =>
      match s.greens[i]? with
      | some (g, slot) =>
        match interOf s slot with
        | some I =>
          match resolveG s.cfg I g with
          | some t => some (s, dumpT t)
          | none => some (s, "unresolvable")
        | none => some (s, "bad-op")
      | none => some (s, "bad-op")
    | none => some (s, "bad-op")
  | ["text", gref] =>
    match parseRef 'g' gref with
    | some i =>
      match s.greens[i]? with
      | some (g, slot) =>
        match interOf s slot with
        | some I =>
          match resolveG s.cfg I g with
          | some t => some (s, s!"{encodeText t.text} {g.len}")
          | none => some (s, "unresolvable")
        | none => some (s, "bad-op")
      | none => some (s, "bad-op")
    | none => some (s, "bad-op")
  | ["heads", gref] =>
    match parseRef 'g' gref with
    | some i =>
      match s.greens[i]? with
      | some (g, _) => some (s, " ".intercalate (headsG g))
      | none => some (s, "bad-op")
    | none => some (s, "bad-op")
  | ["ids", gref] =>
    match parseRef 'g' gref with
    | some i =>
      match s.greens[i]? with
      | some (g, _) =>
        let (m, r) := canonIds s.idMap (idsG g)
        some ({ s with idMap := m }, " ".intercalate (r.map toString))
      | none => some (s, "bad-op")
    | none => some (s, "bad-op")
  | _ => none

end Cst.Drv
