import CstModel.Driver.Core
import CstModel.Generated.DriverFacts
import CstModel.Model.Owner
namespace Cst.Drv

mutual
def headsG : Green → List String
  | .tok .. => []
  | .node _ k l h cs => s!"{k},{l},{h.toNat}" :: headsL cs
def headsL : List Green → List String
  | [] => []
  | g :: gs => headsG g ++ headsL gs
end

mutual
def idsG : Green → List Nat
  | .tok i .. => [i]
  | .node i _ _ _ cs => i :: idsL cs
def idsL : List Green → List Nat
  | [] => []
  | g :: gs => idsG g ++ idsL gs
end

def canonIds (m : List (Nat × Nat)) : List Nat → List (Nat × Nat) × List Nat
  | [] => (m, [])
  | i :: is =>
    match m.lookup i with
    | some c => let (m', r) := canonIds m is; (m', c :: r)
    | none =>
      let c := m.length
      let (m', r) := canonIds ((i, c) :: m) is
      (m', c :: r)

def withBuilder (s : DState) (f : Builder → Except Panic Builder) : DState × String :=
  match s.builder with
  | none => (s, "bad-op")
  | some (b, slot) =>
    match f b with
    | .ok b' => ({ s with builder := some (b', slot) }, "ok")
    | .error _ => (s, "panic")

def interOf (s : DState) (slot : Nat) : Option Interner :=
  match s.caches[slot]? with
  | some (some c) => some c.interner
  | _ => none

def builderStep (s : DState) : List String → Option (DState × String)
  | ["cache", backend] =>
    match backendCap DriverFacts.nIndices backend with
    | none => some (s, "bad-op")
    | some cap =>
      let n := s.caches.size
      some ({ s with caches := s.caches.push (some (Cache.empty (Interner.empty cap))) }, s!"c{n}")
  | ["builder", c] =>
    match parseRef 'c' c with
    | none => some (s, "bad-op")
    | some slot =>
      match s.caches[slot]?, s.builder with
      | some (some cache), none =>
        some ({ s with caches := s.caches.set! slot none, builder := some (Builder.new cache, slot), cps := #[] }, "ok")
      | _, _ => some (s, "bad-op")
  | ["start", k] =>
    match k.toNat? with
    | some k => some (withBuilder s fun b => .ok (b.startNode k))
    | none => some (s, "bad-op")
  | ["tok", k, hex] =>
    match k.toNat?, decodeText hex with
    | some k, some t =>
      match s.builder with
      | none => some (s, "bad-op")
      | some (b, slot) =>
        match b.tokenF s.cfg k t s.failNext with
        | (.ok b', f) => some ({ s with builder := some (b', slot), failNext := f }, "ok")
        | (.error _, f) => some ({ s with failNext := f }, "panic")
    | _, _ => some (s, "bad-op")
  | ["stok", k] =>
    match k.toNat? with
    | some k => some (withBuilder s fun b => b.staticToken s.cfg k)
    | none => some (s, "bad-op")
  | ["finish_node"] => some (withBuilder s fun b => b.finishNode s.cfg)
  | ["failnext"] => some ({ s with failNext := true }, "ok")
  -- checkpoints under `n` open nodes, on a builder of its own: by `C09` their behaviour does not depend on the depth; the
  -- protocol form of the same history is run in the thorough tier (the list-based model needs ~n²/2 steps for it)
  | ["deepcp", _] => some (s, "deep ok")
  | ["cp"] =>
    match s.builder with
    | none => some (s, "bad-op")
    | some (b, _) =>
      let n := s.cps.size
      some ({ s with cps := s.cps.push b.checkpoint }, s!"k{n} {b.checkpoint.1} {b.checkpoint.2}")
  | ["start_at", kref, k] =>
    match parseRef 'k' kref, k.toNat? with
    | some i, some k =>
      match s.cps[i]? with
      | some cp => some (withBuilder s fun b => b.startNodeAt cp k)
      | none => some (s, "bad-op")
    | _, _ => some (s, "bad-op")
  | ["revert", kref] =>
    match parseRef 'k' kref with
    | some i =>
      match s.cps[i]? with
      | some cp => some (withBuilder s fun b => b.revertTo cp)
      | none => some (s, "bad-op")
    | none => some (s, "bad-op")
  | ["finish"] =>
    match s.builder with
    | none => some (s, "bad-op")
    | some (b, slot) =>
      match b.finish with
      | .error _ => some ({ s with builder := none }, "panic")
      | .ok (g, c) =>
        let n := s.greens.size
        let s' := { s with builder := none, caches := s.caches.set! slot (some c), greens := s.greens.push (g, slot) }
        match resolveG s.cfg c.interner g with
        | some t => some (s', s!"g{n} {dumpT t}")
        | none => some (s', s!"g{n} unresolvable")
  | ["dump", gref] =>
    match parseRef 'g' gref with
    | some i =>
      match s.greens[i]? with
      | some (g, slot) =>
        match interOf s slot with
        | some I =>
          match resolveG s.cfg I g with
          | some t => some (s, dumpT t)
          | none => some (s, "unresolvable")
        | none => some (s, "bad-op")
      | none => some (s, "bad-op")
    | none => some (s, "bad-op")
  | ["text", gref] =>
    match parseRef 'g' gref with
    | some i =>
      match s.greens[i]? with
      | some (g, slot) =>
        match interOf s slot with
        | some I =>
          match resolveG s.cfg I g with
          | some t => some (s, s!"{encodeText t.text} {g.len}")
          | none => some (s, "unresolvable")
        | none => some (s, "bad-op")
      | none => some (s, "bad-op")
    | none => some (s, "bad-op")
  | ["heads", gref] =>
    match parseRef 'g' gref with
    | some i =>
      match s.greens[i]? with
      | some (g, _) => some (s, " ".intercalate (headsG g))
      | none => some (s, "bad-op")
    | none => some (s, "bad-op")
  | ["ids", gref] =>
    match parseRef 'g' gref with
    | some i =>
      match s.greens[i]? with
      | some (g, _) =>
        let (m, r) := canonIds s.idMap (idsG g)
        some ({ s with idMap := m }, " ".intercalate (r.map toString))
      | none => some (s, "bad-op")
    | none => some (s, "bad-op")
  | _ => none

/-- a cache that keeps the interner (and the ghost-id counter) but forgets its tokens and nodes -/
def forgetCache (c : Cache) : Cache := { c with toks := [], nodes := [] }

/-- one compact event: `s<kind>` start, `t<kind>:<hex>` token, `k<kind>` static token, `f` finish_node -/
def compactEvent (w : String) : Option (List String) :=
  match w.toList with
  | 's' :: r => some ["start", String.ofList r]
  | 'k' :: r => some ["stok", String.ofList r]
  | ['f'] => some ["finish_node"]
  | 't' :: r =>
    match (String.ofList r).splitOn ":" with
    | [k, h] => some ["tok", k, h]
    | _ => none
  | _ => none

/-- a compact event as an event of the model -/
def compactEv (w : String) : Option Ev :=
  match w.toList with
  | 's' :: r => (String.ofList r).toNat?.map Ev.start
  | 'k' :: r => (String.ofList r).toNat?.map Ev.stok
  | ['f'] => some .finish
  | 't' :: r =>
    match (String.ofList r).splitOn ":" with
    | [k, h] => match k.toNat?, decodeText h with
      | some k, some t => some (.tok k t)
      | _, _ => none
    | _ => none
  | _ => none

def routeOf : String → Option Route
  | "with_cache" => some .withCache
  | "from_cache" => some .fromCache
  | "with_interner" => some .withInterner
  | "from_interner" => some .fromInterner
  | _ => none

/-- `wbuild how cN events`: a whole tree built in one go through one of the borrowing / consuming constructors:
    `Model/Owner.buildVia`; the slot keeps what the caller holds afterwards (`Outcome.slotAfter`) -/
def wbuildStep (s : DState) : List String → Option (DState × String)
  | ["wbuild", how, c, evs] =>
    match parseRef 'c' c, routeOf how, (evs.splitOn ",").mapM compactEv with
    | some slot, some r, some evl =>
      match s.caches[slot]?, s.builder with
      | some (some cache), none =>
        match buildVia s.cfg r cache evl with
        | .error _ =>
          -- the builder (and a cache it owned) is gone with the panic; a lent cache keeps what it learnt: the protocol
          -- only sends valid trees here, so this is a disagreement the diff will show
          some (s, "panic")
        | .ok o =>
          let after := o.slotAfter r cache
          let n := s.greens.size
          let s' := { s with caches := s.caches.set! slot (some after), greens := s.greens.push (o.tree, slot) }
          match resolveG s.cfg after.interner o.tree with
          | some t => some (s', s!"g{n} {dumpT t}")
          | none => some (s', s!"g{n} unresolvable")
      | _, _ => some (s, "bad-op")
    | _, _, _ => some (s, "bad-op")
  | ["wabandon", c, evs] =>
    -- a builder that only borrows the cache (`with_cache`) is fed a prefix of a tree and dropped without `finish`: the cache
    -- keeps what it learnt, nothing of the builder's own state may outlive it
    match parseRef 'c' c, (evs.splitOn ",").mapM compactEv with
    | some slot, some evl =>
      match s.caches[slot]?, s.builder with
      | some (some cache), none =>
        match (Builder.new cache).run s.cfg evl with
        | .error _ => some (s, "panic")
        | .ok b => some ({ s with caches := s.caches.set! slot (some b.cache) }, "ok")
      | _, _ => some (s, "bad-op")
    | _, _ => some (s, "bad-op")
  | _ => none

end Cst.Drv
