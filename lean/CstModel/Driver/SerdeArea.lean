import CstModel.Driver.TextArea
import CstModel.Model.Serde
import CstModel.Model.Markers
import CstModel.Generated.DriverFacts
namespace Cst.Drv

def showSEv : SEv → String
  | .enter k f => s!"E{k}.{if f then 1 else 0}"
  | .token k t => s!"T{k}:{encodeText t}"
  | .leave => "L"

def parseSEv (s : String) : Option SEv :=
  if s = "L" then some .leave else
  match s.toList with
  | 'E' :: rest =>
    match (String.ofList rest).splitOn "." with
    | [k, f] => k.toNat?.map (fun k => .enter k (f == "1"))
    | _ => none
  | 'T' :: rest =>
    match (String.ofList rest).splitOn ":" with
    | [k, h] =>
      match k.toNat?, decodeText h with
      | some k, some t => some (.token k t)
      | _, _ => none
    | _ => none
  | _ => none

def parseAll {α : Type} (f : String → Option α) : List String → Option (List α)
  | [] => some []
  | s :: ss => match f s, parseAll f ss with
    | some a, some as => some (a :: as)
    | _, _ => none

def parseAssign (s : String) : Option (Nat × Nat) :=
  match s.splitOn "=" with
  | [i, v] => match i.toNat?, v.toNat? with
    | some i, some v => some (i, v)
    | _, _ => none
  | _ => none

/-- preorder index of each node position -/
def nodeIndex (r : Red) (ps : List Path) : List (Path × Nat) :=
  ((ps.filter (fun p => !r.isToken p)).zipIdx).map (fun x => (x.1, x.2))

def serdeStep (s : DState) : List String → Option (DState × String)
  | "ser" :: mode :: gref :: assigns =>
    match elemAt s gref, parseAll parseAssign assigns with
    | some (g, slot), some asg =>
      match interOf s slot with
      | none => some (s, "bad-op")
      | some I =>
        let r := Red.new g
        let (ps, r1) := r.descendants []
        let idx := nodeIndex r1 ps
        -- `set_data` on the i-th node of `descendants()`: later assignments replace earlier ones
        let dataOf (p : Path) : Option Nat :=
          match idx.lookup p with
          | some i => (asg.reverse.lookup i)
          | none => none
        let carries := mode == "data" || mode == "data_resolver"
        let flag (p : Path) : Bool := carries && (dataOf p).isSome
        let (evs, r2) := Red.serialize s.cfg I r1 flag
        match evs with
        | none => some (s, "panic")
        | some evs =>
          let data := if carries then ps.filterMap dataOf else []
          let _ := r2
          some (s, ",".intercalate (evs.map showSEv) ++ ";" ++ ",".intercalate (data.map toString))
    | _, _ => some (s, "bad-op")
  | ["deser", _, stream] =>
    match stream.splitOn ";" with
    | [evs, data] =>
      match parseAll parseSEv ((evs.splitOn ",").filter (· ≠ "")), parseAll String.toNat? ((data.splitOn ",").filter (· ≠ "")) with
      | some evs, some data =>
        match deserialize s.cfg DriverFacts.nIndices evs data with
        | .err => some (s, "err")
        | .panic => some (s, "panic")
        | .ok (g, c, att) =>
          match resolveG s.cfg c.interner g with
          | some t => some (s, s!"ok {dumpT t} [{",".intercalate (att.map (fun x => s!"{x.1}={x.2}"))}]")
          | none => some (s, "ok unresolvable")
      | _, _ => some (s, "bad-op")
    | _ => some (s, "bad-op")
  | ["deser_raw", _, _] => some (s, "err")
  | ["marker", kind, m, ds, dy, rs, ry] =>
    let F : MarkerFacts := ⟨DriverFacts.nodeSendNeedsDSend, DriverFacts.nodeSendNeedsDSync, DriverFacts.nodeSyncNeedsDSend,
      DriverFacts.nodeSyncNeedsDSync, DriverFacts.ctorNeedsRSend, DriverFacts.ctorNeedsRSync⟩
    let b (x : String) := x == "1"
    let ok :=
      match kind with
      | "green" => DriverFacts.greenTokenMarkersUnconditional
      | "resolver" => accepted F (m == "sync") (b ds) (b dy) (b rs) (b ry)
      | "text" => DriverFacts.otherUnsafeMarkerImpls == 0 && textOk F (b ds) (b dy) (b ry)
      | "textgeneric" => DriverFacts.otherUnsafeMarkerImpls == 0 && textOk F (b ds) (b dy) (b ry)
      | "kindfree" => kindFreeOk F DriverFacts.nodeMarkersConstrainS (m == "sync") (b ds) (b dy)
      | "iter" => iterOk F (b ds) (b dy)
      | _ => handleOk F (m == "sync") (b ds) (b dy)
    some (s, if ok then "accept" else "reject")
  | _ => none

end Cst.Drv
