import CstModel.Driver.ConcArea
namespace Cst.Drv

open DataSlot

def dataFacts : DataSlot.Facts :=
  ⟨DriverFacts.dataSetW, DriverFacts.dataTrySetW, DriverFacts.dataGetW, DriverFacts.dataClearW⟩

def showRes : Res → String
  | .arc v => s!"arc {v}"
  | .back v => s!"back {v}"
  | .got none => "none"
  | .got (some v) => s!"some {v}"
  | .unit => "unit"

def dataGet (s : DState) (slot : String) : DataSlot.Sys :=
  match s.data.lookup slot with
  | some sys => sys
  | none => DataSlot.Sys.init s.dataThreads

def dataPut (s : DState) (slot : String) (sys : DataSlot.Sys) : DState :=
  { s with data := (slot, sys) :: s.data.filter (fun x => x.1 != slot) }

/-- all outside owners let go, then the node goes away with the tree -/
def dataFinish (sys : DataSlot.Sys) : DataSlot.Sys :=
  let s1 := dropAll dataFacts sys (sys.out.length + 1)
  match DataSlot.step dataFacts s1 0 .teardown with
  | some s2 => s2
  | none => s1

def dataStep (s : DState) : List String → Option (DState × String)
  | ["dev", t, slot, op] =>
    match t.toNat? with
    | some t =>
      let req : Option Req := if op == "get" then some .get else if op == "clear" then some .clear else none
      match req with
      | some r =>
        match runOp dataFacts (dataGet s slot) t r with
        | some (sys', res) => some (dataPut s slot sys', showRes res)
        | none => some (s, "not-enabled")
      | none => some (s, "bad-op")
    | none => some (s, "bad-op")
  | ["dev", t, slot, op, v] =>
    match t.toNat?, v.toNat? with
    | some t, some v =>
      if op == "drop" then
        match DataSlot.step dataFacts (dataGet s slot) t (.dropHandle v) with
        | some sys' => some (dataPut s slot sys', "ok")
        | none => some (s, "not-enabled")
      else
        let req : Option Req := if op == "set" then some (.set v) else if op == "tryset" then some (.trySet v) else none
        match req with
        | some r =>
          match runOp dataFacts (dataGet s slot) t r with
          | some (sys', res) => some (dataPut s slot sys', showRes res)
          | none => some (s, "not-enabled")
        | none => some (s, "bad-op")
    | _, _ => some (s, "bad-op")
  | ["dend"] =>
    let fin := s.data.map (fun x => dataFinish x.2)
    let made := (fin.map (fun sys => sys.made.length)).sum
    let once := (fin.map (fun sys => (sys.made.filter (fun v => sys.drops v == 1)).length)).sum
    let left := (fin.map (fun sys => sys.out.length + (if sys.cell.isSome then 1 else 0))).sum
    some ({ s with data := [] }, s!"made {made} once {once} left {left}")
  | _ => none

end Cst.Drv
