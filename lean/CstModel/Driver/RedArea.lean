import CstModel.Driver.GreenArea
import CstModel.Model.Query
import CstModel.Model.Fmt
import CstModel.Model.Util
namespace Cst.Drv

def RState.idOf (rs : RState) (t : Nat) (p : Path) : RState × Nat :=
  match rs.elems.findIdx? (fun e => e.1 == t && e.2 == p) with
  | some i => (rs, i)
  | none => ({ rs with elems := rs.elems.push (t, p) }, rs.elems.size)

def showEl (rs : RState) (t : Nat) (r : Red) (p : Path) : RState × String :=
  let (rs', i) := rs.idOf t p
  match r.green p, r.range p with
  | some g, some (s, e) => (rs', s!"e{i}:{if g.isNode then "N" else "T"}{g.kind}@{s}..{e}")
  | _, _ => (rs', s!"e{i}:?")

def showEls (rs : RState) (t : Nat) (r : Red) : List Path → RState × List String
  | [] => (rs, [])
  | p :: ps =>
    let (rs1, s) := showEl rs t r p
    let (rs2, ss) := showEls rs1 t r ps
    (rs2, s :: ss)

def showWalk (rs : RState) (t : Nat) (r : Red) : List Red.WE → RState × List String
  | [] => (rs, [])
  | .enter p :: es =>
    let (rs1, s) := showEl rs t r p
    let (rs2, ss) := showWalk rs1 t r es
    (rs2, ("+" ++ s) :: ss)
  | .leave p :: es =>
    let (rs1, s) := showEl rs t r p
    let (rs2, ss) := showWalk rs1 t r es
    (rs2, ("-" ++ s) :: ss)

def putTree (rs : RState) (t : Nat) (r : Red) : RState :=
  match rs.trees[t]? with
  | some (_, slot) => { rs with trees := rs.trees.set! t (r, slot) }
  | none => rs

/-- `taoiter`: drive the result of `token_at_offset` as the iterator it is -/
def taoIterGo (rs : RState) (t : Nat) (r : Red) : Util.TAO Path → List String → List String → RState × List String
  | _, [], acc => (rs, acc.reverse)
  | it, op :: ops, acc =>
    let elem (rs : RState) (o : Option Path) : RState × String :=
      match o with
      | some p => let (rs1, a) := showEl rs t r p; (rs1, a)
      | none => (rs, "none")
    if op == "next" then
      let (o, it') := it.next
      let (rs1, a) := elem rs o
      taoIterGo rs1 t r it' ops (a :: acc)
    else if op.startsWith "nth" then
      let (o, it') := it.nth (op.drop 3).toNat!
      let (rs1, a) := elem rs o
      taoIterGo rs1 t r it' ops (a :: acc)
    else if op == "len" then taoIterGo rs t r it ops (toString it.sizeHint.1 :: acc)
    else if op == "last" then let (rs1, a) := elem rs it.last; (rs1, (a :: acc).reverse)
    else if op == "count" then (rs, (toString it.count :: acc).reverse)
    else if op == "left" then let (rs1, a) := elem rs it.leftBiased; (rs1, (a :: acc).reverse)
    else if op == "right" then let (rs1, a) := elem rs it.rightBiased; (rs1, (a :: acc).reverse)
    else (rs, ("bad-op" :: acc).reverse)

def ansOpt (rs : RState) (t : Nat) (res : Option Path × Red) : RState × String :=
  let rs1 := putTree rs t res.2
  match res.1 with
  | some p => showEl rs1 t res.2 p
  | none => (rs1, "none")

def ansList (rs : RState) (t : Nat) (res : List Path × Red) : RState × String :=
  let rs1 := putTree rs t res.2
  let (rs2, ss) := showEls rs1 t res.2 res.1
  (rs2, if ss.isEmpty then "-" else " ".intercalate ss)

def ansWalk (rs : RState) (t : Nat) (res : List Red.WE × Red) : RState × String :=
  let rs1 := putTree rs t res.2
  let (rs2, ss) := showWalk rs1 t res.2 res.1
  (rs2, " ".intercalate ss)

def navStep (rs : RState) (t : Nat) (r : Red) (p : Path) (isNode : Bool) : List String → Option (RState × String)
  | ["parent"] => some (ansOpt rs t (Red.parent p, r))
  | ["root"] => some (ansOpt rs t (some [], r))
  | ["ancestors"] => some (ansList rs t (r.ancestors p, r))
  | ["range"] => match r.range p with | some (s, e) => some (rs, s!"{s}..{e}") | none => some (rs, "?")
  | ["next_sibling_or_token"] => some (ansOpt rs t (r.nextSiblingOrToken p))
  | ["prev_sibling_or_token"] => some (ansOpt rs t (r.prevSiblingOrToken p))
  | ["siblings_with_tokens", d] => some (ansList rs t (r.siblingsWithTokens p (d == "next")))
  | ["first_token"] => some (ansOpt rs t (r.elemFirstToken p))
  | ["last_token"] => some (ansOpt rs t (r.elemLastToken p))
  | ["next_token"] => if isNode then some (rs, "n/a") else some (ansOpt rs t (r.nextToken p))
  | ["prev_token"] => if isNode then some (rs, "n/a") else some (ansOpt rs t (r.prevToken p))
  | ws =>
    if !isNode then some (rs, "n/a") else
    match ws with
    | ["first_child"] => some (ansOpt rs t (r.firstChild p))
    | ["first_child_or_token"] => some (ansOpt rs t (r.firstChildOrToken p))
    | ["last_child"] => some (ansOpt rs t (r.lastChild p))
    | ["last_child_or_token"] => some (ansOpt rs t (r.lastChildOrToken p))
    | ["next_sibling"] => some (ansOpt rs t (r.nextSibling p))
    | ["prev_sibling"] => some (ansOpt rs t (r.prevSibling p))
    | ["next_child_after", n, o] => some (ansOpt rs t (r.nextChildAfter p n.toNat! o.toNat!))
    | ["next_child_or_token_after", n, o] => some (ansOpt rs t (r.nextChildOrTokenAfter p n.toNat! o.toNat!))
    | ["prev_child_before", n, o] => some (ansOpt rs t (r.prevChildBefore p n.toNat! o.toNat!))
    | ["prev_child_or_token_before", n, o] => some (ansOpt rs t (r.prevChildOrTokenBefore p n.toNat! o.toNat!))
    | ["children"] => some (ansList rs t (r.children p))
    | ["children_with_tokens"] => some (ansList rs t (r.childrenWithTokens p))
    | ["siblings", d] => some (ansList rs t (r.siblings p (d == "next")))
    | ["descendants"] => some (ansList rs t (r.descendants p))
    | ["descendants_with_tokens"] => some (ansList rs t (r.descendantsWithTokens p))
    | ["preorder"] => some (ansWalk rs t (r.preorder p))
    | ["preorder_with_tokens"] => some (ansWalk rs t (r.preorderWithTokens p))
    | ["arity"] => match r.green p with | some g => some (rs, toString (g.children.filter Green.isNode).length) | none => some (rs, "?")
    | ["arity_with_tokens"] => match r.green p with | some g => some (rs, toString g.children.length) | none => some (rs, "?")
    | _ => none

/-- discard `k` items; `true` when the iterator ran out on the way -/
def chiterSkip (nodes : Bool) (it : Red.It) (r : Red) : Nat → Red.It × Red × Bool
  | 0 => (it, r, false)
  | k + 1 =>
    let res := if nodes then it.nextNode r (it.rest.length + 1) else it.nextElem r
    match res.1 with
    | some _ => chiterSkip nodes res.2.1 res.2.2 k
    | none => (res.2.1, res.2.2, true)

/-- run the iterator to its end: the items it yields -/
def chiterDrain (nodes : Bool) (it : Red.It) (r : Red) : Nat → List Path × Red
  | 0 => ([], r)
  | k + 1 =>
    let res := if nodes then it.nextNode r (it.rest.length + 1) else it.nextElem r
    match res.1 with
    | some p => let (ps, r') := chiterDrain nodes res.2.1 res.2.2 k; (p :: ps, r')
    | none => ([], res.2.2)

/-- `chiter`: drive a child iterator -/
def chiterOps (rs : RState) (t : Nat) (nodes : Bool) (it : Red.It) (r : Red) : List String → RState × Red × List String
  | [] => (rs, r, [])
  | op :: rest =>
    let n := if nodes then it.lenNodes else it.lenElems
    match op with
    | "next" =>
      let res := if nodes then it.nextNode r (it.rest.length + 1) else it.nextElem r
      let (rs1, s) := match res.1 with
        | some p => showEl rs t res.2.2 p
        | none => (rs, "none")
      let (rs2, r2, ss) := chiterOps rs1 t nodes res.2.1 res.2.2 rest
      (rs2, r2, s :: ss)
    | "len" => let (rs2, r2, ss) := chiterOps rs t nodes it r rest; (rs2, r2, toString n :: ss)
    | "size_hint" => let (rs2, r2, ss) := chiterOps rs t nodes it r rest; (rs2, r2, s!"{n},{n}" :: ss)
    | "count" => (rs, r, [toString n])
    | "last" =>
      -- `Iterator::last` (not overridden by the crate): the last item `next` yields
      let (ps, r1) := chiterDrain nodes it r (it.rest.length + 1)
      (match ps.getLast? with
       | some p => let (rs1, s) := showEl rs t r1 p; (rs1, r1, [s])
       | none => (rs, r1, ["none"]))
    | "fold" =>
      let (ps, r1) := chiterDrain nodes it r (it.rest.length + 1)
      let (rs1, ss) := showEls rs t r1 ps
      (rs1, r1, ss ++ ["none"])
    | _ =>
      if op.startsWith "nth" then
        -- `Iterator::nth` (not overridden by the crate): `k` calls of `next` are discarded, the next one is the answer
        match (op.drop 3).toNat? with
        | some k =>
          let (it1, r1, dead) := chiterSkip nodes it r k
          if dead then
            let (rs2, r2, ss) := chiterOps rs t nodes it1 r1 rest
            (rs2, r2, "none" :: ss)
          else
            let res := if nodes then it1.nextNode r1 (it1.rest.length + 1) else it1.nextElem r1
            let (rs1, s) := match res.1 with
              | some p => showEl rs t res.2.2 p
              | none => (rs, "none")
            let (rs2, r2, ss) := chiterOps rs1 t nodes res.2.1 res.2.2 rest
            (rs2, r2, s :: ss)
        | none => (rs, r, ["bad-op"])
      else (rs, r, ["bad-op"])

end Cst.Drv

namespace Cst.Drv

def elemOf (s : DState) (ref : String) : Option (Nat × Red × Nat × Path) :=
  match parseRef 'e' ref with
  | none => none
  | some i =>
    match s.red.elems[i]? with
    | none => none
    | some (t, p) =>
      match s.red.trees[t]? with
      | some (r, slot) => some (t, r, slot, p)
      | none => none

/-- text of a green token under the session's syntax and an interner -/
def tokText (cfg : Cfg) (I : Interner) : Green → Option Text
  | .tok _ k none _ => cfg.staticText k
  | .tok _ k (some key) _ => (cfg.staticText k).orElse (fun _ => I.resolve key)
  | _ => none

def redStep (s : DState) : List String → Option (DState × String)
  | ["red", gref] =>
    match elemAt s gref with
    | some (g, slot) =>
      if g.isNode then
        let t := s.red.trees.size
        let r := Red.new g
        let rs := { s.red with trees := s.red.trees.push (r, slot) }
        let (rs', str) := showEl rs t r []
        some ({ s with red := rs' }, str)
      else some (s, "bad-op")
    | none => some (s, "bad-op")
  | ["api", _] => some (s, "ok")
  | "nav" :: eref :: ws =>
    match elemOf s eref with
    | some (t, r, _, p) =>
      match r.green p with
      | some g =>
        match navStep s.red t r p g.isNode ws with
        | some (rs, str) => some ({ s with red := rs }, str)
        | none => some (s, "bad-op")
      | none => some (s, "bad-op")
    | none => some (s, "bad-op")
  | "chiter" :: eref :: kind :: ops =>
    match elemOf s eref with
    | some (t, r, _, p) =>
      match Red.iterNew r p, Red.isToken r p with
      | some it, false =>
        let (rs, r', ss) := chiterOps s.red t (kind == "nodes") it r ops
        some ({ s with red := putTree rs t r' }, " | ".intercalate ss)
      | _, _ => some (s, "n/a")
    | none => some (s, "bad-op")
  | ["tao", eref, off] =>
    match elemOf s eref, off.toNat? with
    | some (t, r, _, p), some off =>
      if Red.isToken r p then some (s, "n/a") else
      let (res, r') := r.tokenAtOffset p off
      let rs := putTree s.red t r'
      match res with
      | .none => some ({ s with red := rs }, "none")
      | .panic => some ({ s with red := rs }, "panic")
      | .single x => let (rs1, a) := showEl rs t r' x; some ({ s with red := rs1 }, s!"single {a}")
      | .between x y =>
        let (rs1, a) := showEl rs t r' x
        let (rs2, b) := showEl rs1 t r' y
        some ({ s with red := rs2 }, s!"between {a} {b}")
    | _, _ => some (s, "bad-op")
  | "taoiter" :: eref :: off :: ops =>
    match elemOf s eref, off.toNat? with
    | some (t, r, _, p), some off =>
      if Red.isToken r p then some (s, "n/a") else
      let (res, r') := r.tokenAtOffset p off
      let rs := putTree s.red t r'
      let it : Option (Util.TAO Path) := match res with
        | .none => some .none
        | .single x => some (.single x)
        | .between x y => some (.between x y)
        | .panic => none
      match it with
      | none => some ({ s with red := rs }, "panic")
      | some it =>
        let (rs1, ss) := taoIterGo rs t r' it ops []
        some ({ s with red := rs1 }, " | ".intercalate ss)
    | _, _ => some (s, "bad-op")
  | ["cover", eref, a, b] =>
    match elemOf s eref, a.toNat?, b.toNat? with
    | some (t, r, _, p), some a, some b =>
      if Red.isToken r p then some (s, "n/a") else
      let (res, r') := r.coveringElement p (a, b)
      let rs := putTree s.red t r'
      match res with
      | some x => let (rs1, str) := showEl rs t r' x; some ({ s with red := rs1 }, str)
      | none => some ({ s with red := rs }, "panic")
    | _, _, _ => some (s, "bad-op")
  | ["replace", eref, gref] =>
    match elemOf s eref, elemAt s gref with
    | some (_, r, slot, p), some (new, _) =>
      let id := 2000000 + 1000 * s.greens.size
      match replaceWith (fxChildHash s.mask) id r.root p new with
      | none => some (s, "panic")
      | some g =>
        let n := s.greens.size
        let s' := { s with greens := s.greens.push (g, slot) }
        match interOf s slot with
        | some I =>
          match resolveG s.cfg I g with
          | some tr => some (s', s!"g{n} {dumpT tr}")
          | none => some (s', s!"g{n} unresolvable")
        | none => some (s, "bad-op")
    | _, _ => some (s, "bad-op")
  | ["resolve", eref] =>
    match elemOf s eref with
    | some (_, r, slot, p) =>
      match r.green p, interOf s slot with
      | some g, some I =>
        match resolveG s.cfg I g with
        | some tr => some (s, encodeText tr.text)
        | none => some (s, "panic")
      | _, _ => some (s, "bad-op")
    | none => some (s, "bad-op")
  | ["static_text", eref] =>
    match elemOf s eref with
    | some (_, r, _, p) =>
      match r.green p with
      | some (.tok _ k _ _) => some (s, match s.cfg.staticText k with | some t => encodeText t | none => "none")
      | _ => some (s, "n/a")
    | none => some (s, "bad-op")
  | ["text_key", eref] =>
    match elemOf s eref with
    | some (_, r, _, p) =>
      match r.green p with
      | some (.tok _ _ key _) => some (s, match key with | some k => toString k | none => "none")
      | _ => some (s, "n/a")
    | none => some (s, "bad-op")
  | _ => none

end Cst.Drv

namespace Cst.Drv

def showDbg (l : Red.DbgLine) : String :=
  s!"{l.depth}:{l.kind}@{l.range.1}..{l.range.2}" ++ (match l.text with | some t => ":" ++ encodeText t | none => "")

def fmtStep (s : DState) : List String → Option (DState × String)
  | ["fmt", eref, what] =>
    match elemOf s eref with
    | some (t, r, slot, p) =>
      match interOf s slot with
      | none => some (s, "bad-op")
      | some I =>
        match what with
        | "display" =>
          let (res, r') := r.display s.cfg I p
          let s' := { s with red := putTree s.red t r' }
          (match res with | some tx => some (s', encodeText tx) | none => some (s', "panic"))
        | "debug" =>
          (match Red.debugLine s.cfg I s.dbgWindow r p 0 with
           | some l => some (s, showDbg l)
           | none => some (s, "panic"))
        | "debug_rec" =>
          if Red.isToken r p then
            (match Red.debugLine s.cfg I s.dbgWindow r p 0 with
             | some l => some (s, showDbg l)
             | none => some (s, "panic"))
          else
            let (res, r') := Red.debugRec s.cfg I s.dbgWindow r p
            let s' := { s with red := putTree s.red t r' }
            (match res with
             | some ls => some (s', " ".intercalate (ls.map showDbg))
             | none => some (s', "panic"))
        | _ => some (s, "bad-op")
    | none => some (s, "bad-op")
  | ["text_eq", a, b] =>
    match elemOf s a, elemOf s b with
    | some (_, r1, _, p1), some (_, r2, _, p2) =>
      match r1.green p1, r2.green p2 with
      | some g1, some g2 =>
        if g1.isNode || g2.isNode then some (s, "n/a") else
        (match textEq s.cfg g1 g2 with
         | some v => some (s, if v then "true" else "false")
         | none => some (s, "panic"))
      | _, _ => some (s, "bad-op")
    | _, _ => some (s, "bad-op")
  | _ => none

end Cst.Drv
