import CstModel.Driver.SerdeArea
import CstModel.Model.Derive
namespace Cst.Drv

def parseAttr (s : String) : Option AttrForm :=
  match s.toList with
  | ['p'] => some .path
  | ['n'] => some .nameValue
  | ['b'] => some .badArg
  | 'l' :: rest => (decodeText (String.ofList rest)).map .lit
  | _ => none

def parseVariant (s : String) : Option VariantDef :=
  match s.splitOn ":" with
  | [hd, attrs] =>
    match hd.splitOn "/" with
    | [f, d] =>
      match f.toNat?, parseAll parseAttr ((attrs.splitOn ",").filter (fun x => x ≠ "" && x ≠ "-")) with
      | some f, some as => some ⟨f, if d = "-" then none else d.toNat?, as⟩
      | _, _ => none
    | _ => none
  | _ => none

def parseReprs (s : String) : List (List ReprArg) :=
  if s = "-" then [] else
  (s.splitOn "/").map (fun a => ((a.splitOn "+").filter (· ≠ "")).map (fun x => if x = "@" then ReprArg.other else ReprArg.ident x))

def deriveStep (s : DState) : List String → Option (DState × String)
  | ["enum", kind, reprs, variants] =>
    let k := match kind with | "enum" => ItemKind.enum | "struct" => ItemKind.struct | _ => ItemKind.union
    match parseAll parseVariant ((variants.splitOn ";").filter (· ≠ "")) with
    | none => some (s, "bad-op")
    | some vs =>
      let d : EnumDef := ⟨k, parseReprs reprs, vs⟩
      if accepts d then
        let n := d.variants.length
        -- the laws, evaluated on the model of the generated code for raw = 0 .. n + 2
        let lt := DriverFacts.deriveAssertLt
        let inRange := (List.range n).all (fun raw => fromRaw lt d raw == some raw && intoRaw d raw == some raw)
        let outRange := (List.range 3).all (fun j => (fromRaw lt d (n + j)).isNone)
        let texts := (List.range n).map (fun i => match staticTextOf d i with | some t => encodeText t | none => "none")
        some (s, s!"accept {n} {inRange && outRange} {",".intercalate texts}")
      else some (s, "reject")
  | _ => none

end Cst.Drv
