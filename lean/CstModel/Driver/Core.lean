/-
  Driver/Core — line-protocol state and helpers.  The driver is a thin shell over the model
  definitions the theorems are about: parsing and printing only.
-/
import CstModel.Model.Tree
import CstModel.Model.Query
import CstModel.Model.SyntaxText
import CstModel.Model.Conc
import CstModel.Model.Teardown
import CstModel.Model.DataSlot
import CstModel.Model.MemModel
namespace Cst.Drv

structure RState where
  trees : Array (Red × Nat) := #[]             -- red tree and the cache slot that resolves it
  elems : Array (Nat × Path) := #[]            -- element id ↦ (tree, path), by first appearance
  deriving Inhabited

structure DState where
  statics : List (Nat × Text) := []
  mask : UInt32 := 0xFFFFFFFF
  debug : Bool := false
  cmp : Bool := true
  threshold : Nat := 3
  interners : Array Interner := #[]
  caches : Array (Option Cache) := #[]
  /-- current builder and the cache slot it came from -/
  builder : Option (Builder × Nat) := none
  failNext : Bool := false
  cps : Array Checkpoint := #[]
  greens : Array (Green × Nat) := #[]      -- root and the cache slot whose interner resolves it
  /-- canonical numbering of ghost ids by first appearance (per case) -/
  idMap : List (Nat × Nat) := []
  red : RState := {}
  views : Array (Nat × Red.View) := #[]
  conc : Option Conc.Sys := none
  concFrees : Nat := 0
  /-- the slots as they were when the teardown was triggered -/
  concTearSlots : List (Option (Bool × Nat)) := []
  mem : Option Mem.Sys := none
  /-- data slots by name, and the number of threads of the current execution -/
  data : List (String × DataSlot.Sys) := []
  dataThreads : Nat := 0
  /-- debug-abbreviation window of `SyntaxToken::write_debug` (from SourceFacts) -/
  dbgWindow : Nat × Nat × Nat := (25, 21, 25)

def DState.cfg (s : DState) : Cfg :=
  { statics := s.statics, H := fxChildHash s.mask, threshold := s.threshold,
    cmpChildren := s.cmp, debug := s.debug }

def DState.resetCase (s : DState) : DState :=
  { s with interners := #[], caches := #[], builder := none, failNext := false, cps := #[],
           greens := #[], idMap := [], red := {}, views := #[], conc := none, concFrees := 0, data := [], dataThreads := 0, mem := none }

/-- parse `<prefix><n>` -/
def parseRef (pfx : Char) (s : String) : Option Nat :=
  match s.toList with
  | c :: rest => if c = pfx then (String.ofList rest).toNat? else none
  | [] => none

mutual
def dumpT : Tree → String
  | .tok k s => s!"{k}:{encodeText s}"
  | .node k cs => "(" ++ toString k ++ dumpTL cs ++ ")"
def dumpTL : List Tree → String
  | [] => ""
  | t :: ts => " " ++ dumpT t ++ dumpTL ts
end

/-- capacity of the key space per interner back end (see DESIGN §6 C10) -/
def backendCap (nIndices : Nat) : String → Option Nat
  | "builtin" => some nIndices
  | "lasso_token" => some (2 ^ 32 - 1)
  | "lasso_mt" => some (2 ^ 32 - 1)
  | "lasso_mt_arc" => some (2 ^ 32 - 1)
  | "rodeo_spur" => some (2 ^ 32 - 1)
  | "rodeo_mini" => some (2 ^ 16 - 1)
  | "rodeo_micro" => some (2 ^ 8 - 1)
  | "threaded_spur" => some (2 ^ 32 - 1)
  | "threaded_spur_ref" => some (2 ^ 32 - 1)
  | "mutref" => some nIndices
  | "builtin_arc" => some nIndices
  | "user" => some (2 ^ 32 - 1)
  | "user_fwd" => some (2 ^ 32 - 1)
  | _ => none

end Cst.Drv
