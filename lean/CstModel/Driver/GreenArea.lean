import CstModel.Driver.BuilderArea
import CstModel.Model.GreenOps
namespace Cst.Drv

/-- `g3.1.0` → root 3, path [1, 0] -/
def parseGPath (s : String) : Option (Nat × List Nat) :=
  match s.splitOn "." with
  | [] => none
  | r :: ps =>
    match parseRef 'g' r with
    | none => none
    | some i =>
      let idx := ps.map String.toNat?
      if idx.all Option.isSome then some (i, idx.filterMap id) else none

def elemAt (s : DState) (ref : String) : Option (Green × Nat) :=
  match parseGPath ref with
  | none => none
  | some (i, p) =>
    match s.greens[i]? with
    | none => none
    | some (g, slot) => (Green.get g p).map (fun e => (e, slot))

def showElem : Green → String
  | .tok _ k _ l => s!"T:{k}:{l}"
  | .node _ k l _ _ => s!"N:{k}:{l}"

def showOpt : Option Green → String
  | none => "none"
  | some g => showElem g

def iterOps (it : ChildIter) : List String → List String
  | [] => []
  | op :: rest =>
    match op.splitOn ":" with
    | ["next"] => let (r, it') := it.next; showOpt r :: iterOps it' rest
    | ["next_back"] => let (r, it') := it.nextBack; showOpt r :: iterOps it' rest
    | ["nth", n] => let (r, it') := it.nth (n.toNat?.getD 0); showOpt r :: iterOps it' rest
    | ["nth_back", n] => let (r, it') := it.nthBack (n.toNat?.getD 0); showOpt r :: iterOps it' rest
    | ["len"] => toString it.len :: iterOps it rest
    | ["size_hint"] => s!"{it.len},{it.len}" :: iterOps it rest
    | ["count"] => [toString it.len]
    | ["last"] => [showOpt it.last]
    | ["fold"] => [",".intercalate (ChildIter.fold (fun acc g => acc ++ [showElem g]) [] it)]
    | ["rfold"] => [",".intercalate (ChildIter.rfold (fun acc g => acc ++ [showElem g]) [] it)]
    | _ => ["bad-op"]

def collectRefs (s : DState) : List String → Option (List Green × Option Nat)
  | [] => some ([], none)
  | r :: rs =>
    match elemAt s r, collectRefs s rs with
    | some (g, slot), some (gs, _) => some (g :: gs, some slot)
    | _, _ => none

def greenStep (s : DState) : List String → Option (DState × String)
  | "gnew" :: k :: refs =>
    match k.toNat?, collectRefs s refs with
    | some k, some (cs, slot) =>
      -- ids of directly constructed nodes come from a separate range; they are never cached
      let id := 1000000 + s.greens.size
      let g := Green.mkNew (fxChildHash s.mask) id k cs
      let slot := slot.getD 0
      let n := s.greens.size
      let s' := { s with greens := s.greens.push (g, slot) }
      match interOf s slot with
      | some I =>
        match resolveG s.cfg I g with
        | some t => some (s', s!"g{n} {dumpT t}")
        | none => some (s', s!"g{n} unresolvable")
      | none => some (s, "bad-op")
    | _, _ => some (s, "bad-op")
  | ["geq", a, b] =>
    match elemAt s a, elemAt s b with
    | some (x, _), some (y, _) => some (s, if Green.beq x y then "true" else "false")
    | _, _ => some (s, "bad-op")
  | ["ghash", a] =>
    match elemAt s a with
    | some (x, _) => some (s, ",".intercalate (x.headWords.map (fun w => toString w.toNat)))
    | none => some (s, "bad-op")
  | "iter" :: a :: ops =>
    match elemAt s a with
    | some (x, _) => some (s, " | ".intercalate (iterOps x.children ops))
    | none => some (s, "bad-op")
  | ["recache", c] =>
    match parseRef 'c' c with
    | some slot =>
      match s.caches[slot]? with
      | some (some cache) =>
        some ({ s with caches := s.caches.set! slot (some { Cache.empty cache.interner with nextId := cache.nextId }) }, "ok")
      | _ => some (s, "bad-op")
    | none => some (s, "bad-op")
  | _ => none

end Cst.Drv
