import CstModel.Driver.RedArea
namespace Cst.Drv

def optNat (s : String) : Option (Option Nat) :=
  if s = "-" then some none else s.toNat?.map some

def allSome : List (Option Text) → Option (List Text)
  | [] => some []
  | none :: _ => none
  | some c :: cs => (allSome cs).map (c :: ·)

def viewChunks (s : DState) (i : Nat) : Option (List (Option Text) × DState × Red.View) :=
  match s.views[i]? with
  | none => none
  | some (t, v) =>
    match s.red.trees[t]? with
    | none => none
    | some (r, slot) =>
      match interOf s slot with
      | none => none
      | some I =>
        let (cs, r') := Red.chunks s.cfg I r v
        some (cs, { s with red := putTree s.red t r' }, v)

def textStep (s : DState) : List String → Option (DState × String)
  | ["view", eref] =>
    match elemOf s eref with
    | some (t, r, _, p) =>
      match r.range p, Red.isToken r p with
      | some rg, false =>
        let n := s.views.size
        some ({ s with views := s.views.push (t, ⟨p, rg⟩) }, s!"v{n} {rg.2 - rg.1}")
      | _, _ => some (s, "n/a")
    | none => some (s, "bad-op")
  | ["vslice", vref, a, b] =>
    match parseRef 'v' vref, optNat a, optNat b with
    | some i, some a, some b =>
      match s.views[i]? with
      | some (t, v) =>
        match viewSlice v a b with
        | some v' =>
          let n := s.views.size
          some ({ s with views := s.views.push (t, v') }, s!"v{n} {v'.range.2 - v'.range.1}")
        | none => some (s, "panic")
      | none => some (s, "bad-op")
    | _, _, _ => some (s, "bad-op")
  | "vop" :: vref :: op =>
    match parseRef 'v' vref with
    | none => some (s, "bad-op")
    | some i =>
      match viewChunks s i with
      | none => some (s, "bad-op")
      | some (cs, s', v) =>
        match op with
        | ["len"] => some (s, toString (v.range.2 - v.range.1))
        | ["is_empty"] => some (s, if v.range.1 == v.range.2 then "true" else "false")
        | ["to_string"] => some (s', match chunksConcat cs with | some t => encodeText t | none => "panic")
        | ["chunks"] =>
          some (s', match allSome cs with
            | some ts => if ts.isEmpty then "." else " ".intercalate (ts.map encodeText)
            | none => "panic")
        | ["contains", hex] =>
          (match decodeText hex with
           | some [c] => some (s', match chunksContain c cs with | some b => toString b | none => "panic")
           | _ => some (s, "bad-op"))
        | ["find", hex] =>
          (match decodeText hex with
           | some [c] => some (s', match chunksFind c 0 cs with
              | some (some n) => toString n | some none => "none" | none => "panic")
           | _ => some (s, "bad-op"))
        | ["char_at", off] =>
          (match off.toNat? with
           | some off => some (s', match chunksCharAt off 0 cs with
              | some (some c) => encodeText [c] | some none => "none" | none => "panic")
           | none => some (s, "bad-op"))
        | ["eqstr", hex] =>
          (match decodeText hex with
           | some t => some (s', match chunksEqStr cs t with | some b => toString b | none => "panic")
           | none => some (s, "bad-op"))
        | _ => some (s, "bad-op")
  | ["veq", a, b] =>
    match parseRef 'v' a, parseRef 'v' b with
    | some i, some j =>
      match viewChunks s i with
      | none => some (s, "bad-op")
      | some (ca, s1, va) =>
        match viewChunks s1 j with
        | none => some (s, "bad-op")
        | some (cb, s2, vb) =>
          match allSome ca, allSome cb with
          | some xs, some ys =>
            some (s2, toString (viewsEq (va.range.2 - va.range.1) (vb.range.2 - vb.range.1) xs ys))
          | _, _ => some (s2, "panic")
    | _, _ => some (s, "bad-op")
  | _ => none

end Cst.Drv
