import CstModel.Driver.DeriveArea
namespace Cst.Drv

open Conc

def concFacts : Facts := ⟨DriverFacts.loserNodeComp, DriverFacts.loserTokenComp⟩

/-- run one model action of thread `t`; `check` compares an observed counter value -/
def concAct (s : DState) (sys : Sys) (t : Nat) (a : Act) (now : Option Int) : DState × String :=
  match step concFacts sys t a with
  | none => (s, "not-enabled")
  | some sys' =>
    let s' := { s with conc := some sys' }
    match now with
    | some v =>
      if sys'.torn = sys.torn then
        if sys'.rc = v then (s', "ok") else (s', s!"mismatch rc={sys'.rc}")
      else ({ s' with concFrees := (installedNodes sys).length + 1, concTearSlots := sys.slots }, "ok")
    | none => (s', "ok")

/-! the recursive teardown: the harness reports, for every numbered slot, the slot its block is installed in and its
    index there, and the sequence of decrements and frees of the teardown; the model computes `Teardown.tearRoot`
    of the tree of installed elements and both must agree -/

def insertByIndex (x : Nat × Nat) : List (Nat × Nat) → List (Nat × Nat)
  | [] => [x]
  | y :: ys => if x.1 ≤ y.1 then x :: y :: ys else y :: insertByIndex x ys

/-- the installed tree below `parent` (`none`: the root); `info`: (slot, parent slot, index) -/
def buildTear (slots : List (Option (Bool × Nat))) (info : List (Nat × Option Nat × Nat)) : Nat → Option Nat → Teardown.ITs
  | 0, _ => .nil
  | fuel + 1, parent =>
    let mine := (info.filter (fun x => x.2.1 == parent)).foldl (fun acc x => insertByIndex (x.2.2, x.1) acc) []
    mine.foldr (fun (x : Nat × Nat) (rest : Teardown.ITs) =>
      match slots[x.2]? with
      | some (some (true, _)) => Teardown.ITs.full (.node x.2 (buildTear slots info fuel (some x.2))) rest
      | some (some (false, _)) => Teardown.ITs.full .tok rest
      | _ => Teardown.ITs.skip rest) .nil

def showTear (evs : List Teardown.Ev) : String :=
  ",".intercalate (evs.filterMap fun e => match e with
    | .dec => some "d"
    | .free s => some s!"f{s}"
    | .freeRoot => some "fr"
    | .freeCount => some "fc"
    | .touch _ => none)

def parseSlotInfo (w : String) : Option (List (Nat × Option Nat × Nat)) :=
  if w == "-" then some [] else
  (w.splitOn ",").mapM fun e =>
    match e.splitOn ":" with
    | [s, p, i] =>
      (match s.toNat?, i.toNat? with
       | some s, some i => if p == "r" then some (s, none, i) else p.toNat?.map fun p => (s, some p, i)
       | _, _ => none)
    | _ => none

def concStep (s : DState) : List String → Option (DState × String)
  | ["sys", ns, nt] =>
    match ns.toNat?, nt.toNat? with
    | some ns, some nt =>
      let sys : Sys := { rc := 1, torn := 0, slots := List.replicate ns none, blocks := [], freed := [], nextId := 0,
                         thr := List.replicate nt ⟨0, .idle⟩ ++ [⟨1, .idle⟩] }
      some ({ s with conc := some sys, concFrees := 0, data := [], dataThreads := nt + 1 }, "ok")
    | _, _ => some (s, "bad-op")
  | "ev" :: t :: rest =>
    match s.conc, t.toNat? with
    | some sys, some t =>
      match rest with
      | ["inc", now] => some (concAct s sys t .clone (now.toInt?))
      | ["dec", now] =>
        let pc : Option PC := (sys.thr[t]?).map (fun x => x.pc)
        let a : Option Act := match pc with
          | some PC.idle => some Act.dropH
          | some (PC.added _ _ _) => some Act.dropCand
          | some (PC.dropped1 _ _) => some Act.freeCand
          | _ => none
        (match a with
         | some a => some (concAct s sys t a (now.toInt?))
         | none => some (s, "not-enabled"))
      | ["send", j] => (match j.toNat? with | some j => some (concAct s sys t (.send j) none) | none => some (s, "bad-op"))
      | ["rdhit", sl] => (match sl.toNat? with | some sl => some (concAct s sys t (.rdHit sl) none) | none => some (s, "bad-op"))
      | ["rdmiss", sl, k] => (match sl.toNat? with | some sl => some (concAct s sys t (.rdMiss sl (k == "n")) none) | none => some (s, "bad-op"))
      | ["install"] => some (concAct s sys t .install none)
      | ["lose"] => some (concAct s sys t .lose none)
      | ["add", now] => some (concAct s sys t .fetchAdd (now.toInt?))
      | ["reread"] => some (concAct s sys t .reread none)
      | ["acc"] => some (s, "ok")
      | ["tear", info, stream] =>
        (match parseSlotInfo info with
         | some info =>
           let its := buildTear s.concTearSlots info (info.length + 1) none
           let want := showTear (Teardown.tearRoot its)
           if sys.torn = 1 ∧ want == stream then some (s, "ok") else some (s, s!"mismatch teardown model={want}")
         | none => some (s, "bad-op"))
      | ["tdec"] => some (s, if sys.torn = 1 then "ok" else "not-enabled")
      | ["torn", last, nfrees] =>
        (match last.toInt?, nfrees.toNat? with
         | some last, some nf =>
           if sys.torn = 1 ∧ sys.rc = last ∧ s.concFrees = nf ∧ sys.blocks = [] then some (s, "ok")
           else some (s, s!"mismatch torn={sys.torn} rc={sys.rc} frees={s.concFrees} blocks={sys.blocks.length}")
         | _, _ => some (s, "bad-op"))
      | _ => some (s, "bad-op")
    | _, _ => some (s, "bad-op")
  | _ => none

end Cst.Drv
