import CstModel.Driver.Core
import CstModel.Generated.DriverFacts
namespace Cst.Drv

def internStep (s : DState) (ws : List String) : Option (DState × String) :=
  -- `intern_nt` is the panicking entry point `get_or_intern`; same function in the model
  match (match ws with | "intern_nt" :: r => "intern" :: r | w => w) with
  | ["interner", backend] =>
    match backendCap DriverFacts.nIndices backend with
    | none => some (s, "bad-op")
    | some cap =>
      let n := s.interners.size
      some ({ s with interners := s.interners.push (Interner.empty cap) }, s!"i{n}")
  | ["intern", iref, hex] =>
    match parseRef 'i' iref, decodeText hex with
    | some i, some t =>
      match s.interners[i]? with
      | some I =>
        match I.intern t with
        | some (k, I') => some ({ s with interners := s.interners.set! i I' }, s!"key {k}")
        | none => some (s, "err")
      | none => some (s, "bad-op")
    | _, _ => some (s, "bad-op")
  | ["resolve", iref, raw] =>
    match parseRef 'i' iref, raw.toNat? with
    | some i, some k =>
      match s.interners[i]? with
      | some I =>
        match I.resolve k with
        | some t => some (s, encodeText t)
        | none => some (s, "none")
      | none => some (s, "bad-op")
    | _, _ => some (s, "bad-op")
  | ["rawkey", raw] =>
    match raw.toNat? with
    | some r =>
      if r < 2 ^ 32 then
        let g := UInt32.ofNat DriverFacts.keyGuard
        match tryFromU32 g (UInt32.ofNat DriverFacts.keyShiftUp) (UInt32.ofNat r) with
        | some inner => some (s, s!"key {inner.toNat} {(intoU32 (UInt32.ofNat DriverFacts.keyShiftDown) inner).toNat}")
        | none => some (s, "none")
      else some (s, "bad-op")
    | none => some (s, "bad-op")
  | ["usizekey", n] =>
    match n.toNat? with
    | some n =>
      match tryFromUsize (UInt32.ofNat DriverFacts.keyGuard) (UInt32.ofNat DriverFacts.keyShiftUp) n with
      | some inner => some (s, s!"key {inner.toNat}")
      | none => some (s, "none")
    | none => some (s, "bad-op")
  | _ => none

end Cst.Drv
