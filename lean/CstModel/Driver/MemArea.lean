import CstModel.Driver.DataArea
namespace Cst.Drv

open Mem

def memOrds : Mem.Ords :=
  ⟨isRel DriverFacts.cloneOrdering, isAcq DriverFacts.cloneOrdering,
   isRel DriverFacts.dropOrdering, isAcq DriverFacts.dropOrdering⟩

/-- re-tabulate the clocks (they are closures over closures after a step; extensionally the same function
    on the thread indices in use, evaluated once) -/
def ofList (l : List Nat) (i : Nat) : Nat := l.getD i 0
def ofLists (d : List (List Nat)) (t i : Nat) : Nat := (d.getD t []).getD i 0

/-- the tables are computed here (strictly, as data); the closures stored in the state only index them -/
def memNorm (m : Mem.Sys) : Mem.Sys :=
  let n := m.owned.length
  let d : List (List Nat) := (List.range n).map (fun t => (List.range n).map (m.C t))
  let l : List Nat := (List.range n).map m.L
  { m with C := ofLists d, L := ofList l }

def memClones (m : Mem.Sys) (t : Nat) : Nat → Option Mem.Sys
  | 0 => some m
  | k + 1 => match Mem.step memOrds m t .clone with
    | some m' => memClones m' t k
    | none => none

/-- the happens-before model follows the same event stream as the protocol model: counter values must
    agree, every access must be made by a thread that holds a handle, the teardown must be race free -/
def memStep (s : DState) : List String → Option (DState × String)
  | ["sys", _, nt] =>
    match nt.toNat? with
    | some nt => some ({ s with mem := some (Mem.Sys.init (List.replicate nt 0 ++ [1])) }, "ok")
    | none => some (s, "bad-op")
  | "ev" :: t :: rest =>
    match s.mem, t.toNat? with
    | some m, some t =>
      let upd (r : Option Mem.Sys) (now : Option Int) : DState × String :=
        match r with
        | none => (s, "hb-not-enabled")
        | some m' =>
          let m' := memNorm m'
          let s' := { s with mem := some m' }
          if m'.raced then (s', "hb-race")
          else if m'.torn then (s', "ok")
          else match now with
            | some v => if m'.rc = v then (s', "ok") else (s', s!"hb-mismatch rc={m'.rc}")
            | none => (s', "ok")
      match rest with
      | ["inc", now] => some (upd (Mem.step memOrds m t .clone) now.toInt?)
      | ["dec", now] => some (upd (Mem.step memOrds m t .drop) now.toInt?)
      | ["add", now] =>
        (match now.toInt? with
         | some v => some (upd (memClones m t (v - m.rc).toNat) (some v))
         | none => some (s, "bad-op"))
      | ["send", j] => (match j.toNat? with | some j => some (upd (Mem.step memOrds m t (.send j)) none) | none => some (s, "bad-op"))
      | ["acc"] =>
        (match Mem.step memOrds m t .access with
         | some m' => some ({ s with mem := some (memNorm m') }, "ok")
         | none => some (s, "hb-access-without-handle"))
      | "torn" :: _ => some (s, if m.torn && !m.raced then "ok" else "hb-teardown-mismatch")
      | _ => some (s, "ok")
    | _, _ => some (s, "bad-op")
  | _ => none

end Cst.Drv
