//! Free-running multi-threaded programs over the *unhooked* crate, for Miri's happens-before data-race
//! detector (C07).  Each program uses the safe API only.  `miri_probe <name>` runs one program.
use cstree::{
    build::GreenNodeBuilder,
    green::GreenNode,
    interning::{new_interner, TokenInterner},
    syntax::{SyntaxNode, SyntaxToken},
    RawSyntaxKind, Syntax,
};
use std::sync::Arc;
use std::thread;

#[derive(Debug, Clone, Copy, PartialEq, Eq, Hash)]
#[repr(transparent)]
struct K(u32);
impl Syntax for K {
    fn from_raw(raw: RawSyntaxKind) -> Self {
        K(raw.0)
    }
    fn into_raw(self) -> RawSyntaxKind {
        RawSyntaxKind(self.0)
    }
    fn static_text(self) -> Option<&'static str> {
        if self.0 == 12 { Some("+") } else { None }
    }
}

type Node = SyntaxNode<K, u32>;
type Token = SyntaxToken<K, u32>;

fn tree() -> (GreenNode, Arc<TokenInterner>) {
    let mut interner = new_interner();
    let green = {
        let mut b: GreenNodeBuilder<'_, '_, K, _> = GreenNodeBuilder::with_interner(&mut interner);
        b.start_node(K(0));
        b.start_node(K(1));
        b.token(K(10), "a");
        b.static_token(K(12));
        b.start_node(K(2));
        b.token(K(10), "bc");
        b.finish_node();
        b.finish_node();
        b.token(K(10), "d");
        b.start_node(K(3));
        b.finish_node();
        b.finish_node();
        b.finish().0
    };
    (green, Arc::new(interner))
}

fn walk(n: &Node) -> usize {
    let mut c = 0;
    for e in n.children_with_tokens() {
        c += 1;
        if let Some(n) = e.as_node() {
            c += walk(n);
            let _ = n.parent();
        } else if let Some(t) = e.as_token() {
            let _ = t.text_range();
            let _ = t.parent().text_range();
        }
    }
    c
}

/// two threads clone and drop handles to the same node at the same time
fn clone_clone() {
    let (g, _) = tree();
    let root: Node = SyntaxNode::new_root(g);
    thread::scope(|s| {
        for _ in 0..2 {
            s.spawn(|| {
                for _ in 0..3 {
                    let c = root.clone();
                    drop(c);
                }
            });
        }
    });
}

/// a thread traverses and drops its handle while the main thread drops the root handle un-joined:
/// the last drop (the teardown) happens on either thread, ordered only by the reference count
fn drop_unjoined() {
    let (g, _) = tree();
    let root: Node = SyntaxNode::new_root(g);
    let h = root.clone();
    let t = thread::spawn(move || {
        let n = walk(&h);
        let inner = h.first_child().map(|c| c.clone());
        drop(h);
        drop(inner);
        n
    });
    let _ = root.first_child_or_token().map(|e| e.text_range());
    drop(root);
    t.join().unwrap();
}

/// both threads materialise the same children at the same time (creation races)
fn race_create() {
    let (g, _) = tree();
    let root: Node = SyntaxNode::new_root(g);
    thread::scope(|s| {
        for _ in 0..2 {
            s.spawn(|| walk(&root));
        }
    });
    walk(&root);
}

/// token and inner-node handles outlive the root handle and die on other threads
fn inner_handles() {
    let (g, _) = tree();
    let root: Node = SyntaxNode::new_root(g);
    let tok: Token = root.first_token().unwrap().clone();
    let inner: Node = root.first_child().unwrap().clone();
    drop(root);
    let a = thread::spawn(move || {
        let r = tok.text_range();
        let p = tok.parent().clone();
        drop(tok);
        drop(p);
        r
    });
    let b = thread::spawn(move || {
        let n = walk(&inner);
        drop(inner);
        n
    });
    a.join().unwrap();
    b.join().unwrap();
}

/// the per-node data slot from two threads
fn data_slots() {
    let (g, _) = tree();
    let root: Node = SyntaxNode::new_root(g);
    thread::scope(|s| {
        s.spawn(|| {
            let _ = root.try_set_data(1);
            let _ = root.get_data();
            root.clear_data();
        });
        s.spawn(|| {
            let _ = root.set_data(2);
            let _ = root.try_set_data(3);
            let _ = root.get_data();
        });
    });
    let _ = root.get_data();
}

/// one thread keeps replacing and clearing a node's data while another keeps reading it: the slot is the only owner of
/// each payload, so a reader must never be left with a payload the writer has released
fn data_churn() {
    let (g, _) = tree();
    let root: Node = SyntaxNode::new_root(g);
    thread::scope(|s| {
        s.spawn(|| {
            for i in 0..5u32 {
                drop(root.set_data(i));
                root.clear_data();
                let _ = root.try_set_data(i + 100);
                drop(root.set_data(i + 200));
            }
        });
        s.spawn(|| {
            for _ in 0..12 {
                if let Some(a) = root.get_data() {
                    assert!(*a < 1000);
                }
            }
        });
    });
}

/// a freshly created tree is shared by reference and every read-only accessor is called for the first time from several
/// threads at once (whatever a method memoises on first use sits behind the handle's `Sync` promise)
fn cold_calls() {
    use cstree::text::{TextRange, TextSize};
    use std::hash::{Hash, Hasher};
    let (g, i) = tree();
    let root: cstree::syntax::ResolvedNode<K, u32> = SyntaxNode::new_root_with_resolver(g, i);
    thread::scope(|s| {
        for t in 0..3usize {
            let root = &root;
            s.spawn(move || {
                let mut acc = 0usize;
                let mut stack: Vec<&cstree::syntax::ResolvedNode<K, u32>> = vec![root];
                while let Some(n) = stack.pop() {
                    acc += n.arity() + n.arity_with_tokens();
                    acc += n.syntax_kind().0 as usize + n.kind().0 as usize;
                    let r = n.text_range();
                    acc += usize::from(r.len());
                    let _ = n.green().kind();
                    acc += n.parent().is_some() as usize;
                    acc += n.first_child().is_some() as usize + n.last_child().is_some() as usize;
                    acc += n.first_token().is_some() as usize + n.last_token().is_some() as usize;
                    acc += n.next_sibling().is_some() as usize + n.prev_sibling().is_some() as usize;
                    acc += n.children().count() + n.descendants().count() + n.preorder().count() + n.ancestors().count();
                    acc += n.get_data().is_some() as usize;
                    if !r.is_empty() {
                        acc += n.token_at_offset(r.start()).count();
                        let _ = n.covering_element(TextRange::new(r.start(), r.start() + TextSize::from(1)));
                    }
                    let mut h = std::collections::hash_map::DefaultHasher::new();
                    n.hash(&mut h);
                    acc += (h.finish() & 1) as usize + (n == root) as usize;
                    acc += format!("{:?}{}", n, n).len();
                    let kids: Vec<_> = if t % 2 == 0 { n.children().collect() } else { let mut v: Vec<_> = n.children().collect(); v.reverse(); v };
                    stack.extend(kids);
                }
                assert!(acc > 0);
            });
        }
    });
}

/// a resolved tree (interner attached) read from two threads
fn resolved() {
    let (g, i) = tree();
    let root: cstree::syntax::ResolvedNode<K, u32> = SyntaxNode::new_root_with_resolver(g, i);
    thread::scope(|s| {
        for _ in 0..2 {
            s.spawn(|| {
                assert_eq!(root.text().to_string(), "a+bcd");
            });
        }
    });
}

/// green trees are shared and dropped across threads (hand-written Send/Sync of the packed elements)
fn green_share() {
    let (g, _) = tree();
    let g2 = g.clone();
    let t = thread::spawn(move || {
        let n: usize = g2.children().count();
        let c = g2.children().next().and_then(|e| e.into_node().cloned());
        drop(g2);
        drop(c);
        n
    });
    let c = g.children().last().and_then(|e| e.into_node().cloned());
    drop(g);
    drop(c);
    t.join().unwrap();
}

/// green tokens are shared between trees and threads like green nodes: two threads clone and drop handles to the same
/// tokens at overlapping times, directly and through `replace_with` on sibling nodes (which re-wraps the parent and so
/// clones the handles of all the siblings)
fn green_tokens() {
    let (g, _) = tree();
    let g2 = g.clone();
    let t = thread::spawn(move || {
        let mut held = vec![];
        for _ in 0..3 {
            for e in g2.children() {
                if let Some(t) = e.into_token() {
                    held.push(t.clone());
                }
            }
        }
        let inner = g2.children().next().and_then(|e| e.into_node().cloned());
        if let Some(n) = inner {
            for e in n.children() {
                if let Some(t) = e.into_token() {
                    held.push(t.clone());
                }
            }
        }
        drop(g2);
        held.len()
    });
    let mut held = vec![];
    for _ in 0..3 {
        for e in g.children() {
            if let Some(t) = e.into_token() {
                held.push(t.clone());
            }
        }
    }
    drop(held);
    t.join().unwrap();
    // replace_with from two threads on sibling nodes of one shared red tree
    let (g, _) = tree();
    let root: Node = SyntaxNode::new_root(g);
    let r2 = root.clone();
    let t = thread::spawn(move || {
        let first = r2.first_child().unwrap().clone();
        let new = first.replace_with(first.green().clone());
        drop(new);
    });
    let last = root.last_child().unwrap().clone();
    let new = last.replace_with(last.green().clone());
    drop(new);
    t.join().unwrap();
}

pub const PROGRAMS: &[(&str, fn())] = &[
    ("clone_clone", clone_clone),
    ("drop_unjoined", drop_unjoined),
    ("race_create", race_create),
    ("inner_handles", inner_handles),
    ("data_slots", data_slots),
    ("data_churn", data_churn),
    ("cold_calls", cold_calls),
    ("resolved", resolved),
    ("green_share", green_share),
    ("green_tokens", green_tokens),
];

fn main() {
    let want = std::env::args().nth(1).unwrap_or_else(|| "all".into());
    for (name, f) in PROGRAMS {
        if want == "all" || want == *name {
            f();
            println!("ran {}", name);
        }
    }
}
