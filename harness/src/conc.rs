//! Concurrency harness (C05, C06, C18): small multi-threaded programs over one shared syntax tree,
//! run under the deterministic scheduler; every execution is checked by an oracle and turned into a
//! trace for the Lean monitor (`Model/Conc`, `Model/DataSlot`).
use crate::area_builder::RefTree;
use crate::gen::*;
use crate::reftree::Arena;
use crate::sched::*;
use crate::util::*;
use cstree::build::GreenNodeBuilder;
use cstree::green::GreenNode;
use cstree::syntax::{SyntaxElement, SyntaxElementRef, SyntaxNode};
use cstree::util::NodeOrToken;
use cstree::verif::{Note, Point, RmwSite};
use std::collections::HashMap;
use std::hash::{Hash, Hasher};
use std::sync::atomic::{AtomicU32, Ordering};
use std::sync::{Arc, Mutex};

/// payload of the per-node data slot: counts its own drops
pub struct Payload {
    pub v:  u32,
    pub id: usize,
}
static DROPS: Mutex<Vec<u32>> = Mutex::new(Vec::new());
static NEXT_PAYLOAD: AtomicU32 = AtomicU32::new(0);
impl Payload {
    pub fn new(v: u32) -> Payload {
        let mut d = DROPS.lock().unwrap();
        d.push(0);
        NEXT_PAYLOAD.fetch_add(1, Ordering::Relaxed);
        Payload { v, id: d.len() - 1 }
    }
}
impl Drop for Payload {
    fn drop(&mut self) {
        // the crate runs this destructor somewhere inside its data operations: other threads may run here
        user_point("payload-drop");
        DROPS.lock().unwrap()[self.id] += 1;
    }
}
impl std::fmt::Debug for Payload {
    fn fmt(&self, f: &mut std::fmt::Formatter<'_>) -> std::fmt::Result {
        write!(f, "P{}", self.v)
    }
}

type Node = SyntaxNode<K, Payload>;
type Elem = SyntaxElement<K, Payload>;

#[derive(Clone, Debug, PartialEq)]
pub enum Op {
    Nav(&'static str),
    Child(usize),
    Dup,
    Pop,
    Reset,
    Set(u32),
    /// `set_data` without keeping the handle it returns: the slot is then the payload's only owner, so whichever
    /// operation takes it out of the slot also runs its destructor
    SetForget(u32),
    TrySet(u32),
    Get,
    Clear,
    /// first operation of a thread: it works with the one handle it was given (no second copy of it is kept)
    Lean,
}

pub type Prog = Vec<Vec<Op>>;

pub fn show_prog(p: &Prog) -> String {
    p.iter()
        .map(|t| {
            t.iter()
                .map(|o| match o {
                    Op::Nav(s) => s.to_string(),
                    Op::Child(i) => format!("ch{}", i),
                    Op::Dup => "dup".into(),
                    Op::Pop => "pop".into(),
                    Op::Reset => "reset".into(),
                    Op::Set(v) => format!("set{}", v),
                    Op::SetForget(v) => format!("sf{}", v),
                    Op::TrySet(v) => format!("try{}", v),
                    Op::Get => "get".into(),
                    Op::Clear => "clear".into(),
                    Op::Lean => "lean".into(),
                })
                .collect::<Vec<_>>()
                .join(".")
        })
        .collect::<Vec<_>>()
        .join("|")
}

pub fn build_green(t: &RefTree) -> GreenNode {
    fn go(b: &mut GreenNodeBuilder<'static, 'static, K>, t: &RefTree) {
        match t {
            RefTree::Tok(k, s) => b.token(K(*k), s),
            RefTree::Node(k, cs) => {
                b.start_node(K(*k));
                for c in cs {
                    go(b, c);
                }
                b.finish_node();
            }
        }
    }
    let mut b: GreenNodeBuilder<K> = GreenNodeBuilder::new();
    go(&mut b, t);
    b.finish().0
}

fn key_of(e: &Elem) -> u64 {
    let mut h = std::collections::hash_map::DefaultHasher::new();
    e.hash(&mut h);
    h.finish()
}

/// one observation of a handle by a thread
#[derive(Clone, Debug)]
pub struct Obs {
    pub tid:   usize,
    pub path:  Option<usize>, // arena id (reference position)
    pub key:   u64,
    pub kind:  u32,
    pub range: (usize, usize),
    pub is_node: bool,
}

pub struct Exec {
    pub trace:      Vec<(usize, Ev)>,
    pub obs:        Vec<Obs>,
    pub data_log:   Vec<(usize, String)>, // (tid, "set 5 -> ok" …) in completion order
    pub violations: Vec<(String, String)>, // (property, what)
    pub choices:    Vec<usize>,
    pub steps:      Vec<(Vec<usize>, usize)>, // (enabled, chosen) per scheduling decision
    pub deadlock:   bool,
    pub payloads:   (usize, usize), // (created, dropped exactly once)
}

struct ThreadCtx<'a> {
    t:      usize,
    sched:  &'a Sched,
    arena:  &'a Arena,
    obs:    &'a Mutex<Vec<Obs>>,
    data:   &'a Mutex<Vec<(usize, String)>>,
    held:   &'a Mutex<Vec<Vec<cstree::sync::Arc<Payload>>>>,
}

fn observe(cx: &ThreadCtx<'_>, e: &Elem, pos: Option<usize>, what: &str) {
    let r = e.text_range();
    let o = Obs {
        tid: cx.t,
        path: pos,
        key: key_of(e),
        kind: e.syntax_kind().0,
        range: (u32::from(r.start()) as usize, u32::from(r.end()) as usize),
        is_node: matches!(e, NodeOrToken::Node(_)),
    };
    cx.sched.record_op(cx.t, format!("{} -> {}{}@{}..{}", what, if o.is_node { "N" } else { "T" }, o.kind, o.range.0, o.range.1));
    cx.obs.lock().unwrap().push(o);
}

fn to_owned(e: SyntaxElementRef<'_, K, Payload>) -> Elem {
    match e {
        NodeOrToken::Node(n) => NodeOrToken::Node(n.clone()),
        NodeOrToken::Token(t) => NodeOrToken::Token(t.clone()),
    }
}

fn run_thread(cx: ThreadCtx<'_>, root: Node, ops: &[Op]) {
    let lean = ops.first() == Some(&Op::Lean);
    // a lean thread navigates from its only handle; `reset` is then a no-op
    let (root, mut cur): (Option<Node>, Elem) = if lean { (None, NodeOrToken::Node(root)) } else { (Some(root.clone()), NodeOrToken::Node(root)) };
    let mut pos: Option<usize> = Some(0);
    let mut stack: Vec<(Elem, Option<usize>)> = vec![];
    for (opi, op) in ops.iter().enumerate() {
        // values stored in data slots are made unique per (thread, operation)
        let uniq = |v: u32| (cx.t as u32 + 1) * 1000 + (opi as u32) * 10 + v;
        match op {
            Op::Nav(name) => {
                let res: Option<Elem> = match (&cur, *name) {
                    (NodeOrToken::Node(n), "fc") => n.first_child_or_token().map(to_owned),
                    (NodeOrToken::Node(n), "lc") => n.last_child_or_token().map(to_owned),
                    (NodeOrToken::Node(n), "fcn") => n.first_child().map(|x| NodeOrToken::Node(x.clone())),
                    (NodeOrToken::Node(n), "lcn") => n.last_child().map(|x| NodeOrToken::Node(x.clone())),
                    (NodeOrToken::Node(n), "ns") => n.next_sibling_or_token().map(to_owned),
                    (NodeOrToken::Node(n), "ps") => n.prev_sibling_or_token().map(to_owned),
                    (NodeOrToken::Token(t), "ns") => t.next_sibling_or_token().map(to_owned),
                    (NodeOrToken::Token(t), "ps") => t.prev_sibling_or_token().map(to_owned),
                    (NodeOrToken::Node(n), "up") => n.parent().map(|x| NodeOrToken::Node(x.clone())),
                    (NodeOrToken::Token(t), "up") => Some(NodeOrToken::Node(t.parent().clone())),
                    (NodeOrToken::Node(n), "ft") => n.first_token().map(|x| NodeOrToken::Token(x.clone())),
                    (NodeOrToken::Node(n), "lt") => n.last_token().map(|x| NodeOrToken::Token(x.clone())),
                    (NodeOrToken::Token(t), "nt") => t.next_token().map(|x| NodeOrToken::Token(x.clone())),
                    (NodeOrToken::Token(t), "pt") => t.prev_token().map(|x| NodeOrToken::Token(x.clone())),
                    _ => None,
                };
                let ws: Vec<&str> = match *name {
                    "fc" => vec!["first_child_or_token"],
                    "lc" => vec!["last_child_or_token"],
                    "fcn" => vec!["first_child"],
                    "lcn" => vec!["last_child"],
                    "ns" => vec!["next_sibling_or_token"],
                    "ps" => vec!["prev_sibling_or_token"],
                    "up" => vec!["parent"],
                    "ft" => vec!["first_token"],
                    "lt" => vec!["last_token"],
                    "nt" => vec!["next_token"],
                    _ => vec!["prev_token"],
                };
                let want = pos.and_then(|p| {
                    let is_tok = cx.arena.is_tok(p);
                    let ok = match *name {
                        "nt" | "pt" => is_tok,
                        "ns" | "ps" | "up" => true,
                        _ => !is_tok,
                    };
                    if !ok {
                        return Some(None);
                    }
                    match cx.arena.nav(p, &ws) {
                        Some(crate::reftree::Nav2::Opt(o)) => Some(o),
                        _ => None,
                    }
                });
                match res {
                    Some(e) => {
                        let p = want.flatten();
                        observe(&cx, &e, p, name);
                        cur = e;
                        pos = p;
                    }
                    None => cx.sched.record_op(cx.t, format!("{} -> none", name)),
                }
            }
            Op::Child(i) => {
                if let NodeOrToken::Node(n) = &cur {
                    let res = n.children_with_tokens().nth(*i).map(to_owned);
                    match res {
                        Some(e) => {
                            let p = pos.and_then(|p| cx.arena.nodes[p].children.get(*i).cloned());
                            observe(&cx, &e, p, &format!("ch{}", i));
                            cur = e;
                            pos = p;
                        }
                        None => cx.sched.record_op(cx.t, format!("ch{} -> none", i)),
                    }
                }
            }
            Op::Dup => {
                stack.push((cur.clone(), pos));
                cx.sched.record_op(cx.t, "dup".into());
            }
            Op::Pop => {
                drop(stack.pop());
                cx.sched.record_op(cx.t, "pop".into());
            }
            Op::Reset => {
                if let Some(r) = &root {
                    cur = NodeOrToken::Node(r.clone());
                    pos = Some(0);
                }
                cx.sched.record_op(cx.t, "reset".into());
            }
            Op::Lean => {}
            Op::Set(_) | Op::SetForget(_) | Op::TrySet(_) | Op::Get | Op::Clear => {
                let node: Node = match &cur {
                    NodeOrToken::Node(n) => n.clone(),
                    NodeOrToken::Token(t) => t.parent().clone(),
                };
                let slot = match &cur {
                    NodeOrToken::Node(_) => pos,
                    NodeOrToken::Token(_) => pos.and_then(|p| cx.arena.parent(p)),
                };
                let s = match op {
                    Op::Set(v) => {
                        let v = &uniq(*v);
                        let a = node.set_data(Payload::new(*v));
                        let r = format!("set {} -> {}", v, a.v);
                        cx.held.lock().unwrap()[cx.t].push(a);
                        r
                    }
                    Op::SetForget(v) => {
                        let v = &uniq(*v);
                        let a = node.set_data(Payload::new(*v));
                        let r = format!("setf {} -> {}", v, a.v);
                        drop(a);
                        r
                    }
                    Op::TrySet(v) => match { let v = uniq(*v); (v, node.try_set_data(Payload::new(v))) } {
                        (v, Ok(a)) => {
                            let r = format!("tryset {} -> ok {}", v, a.v);
                            cx.held.lock().unwrap()[cx.t].push(a);
                            r
                        }
                        (v, Err(p)) => format!("tryset {} -> err {}", v, p.v),
                    },
                    Op::Get => match node.get_data() {
                        Some(a) => {
                            let r = format!("get -> some {}", a.v);
                            cx.held.lock().unwrap()[cx.t].push(a);
                            r
                        }
                        None => "get -> none".into(),
                    },
                    _ => {
                        node.clear_data();
                        "clear -> ()".into()
                    }
                };
                let s = format!("{} @{}", s, slot.map(|x| x.to_string()).unwrap_or("?".into()));
                cx.sched.record_op(cx.t, s.clone());
                cx.data.lock().unwrap().push((cx.t, s));
            }
        }
    }
    drop(stack);
    drop(cur);
    drop(root);
}

/// Run one program under a schedule.  `choose(enabled, last)` picks the next thread.
pub fn execute(tree: &RefTree, prog: &Prog, root_first: bool, choose: &mut dyn FnMut(&[usize], Option<usize>) -> usize) -> Exec {
    let arena = Arena::build(tree);
    let green = build_green(tree);
    let n = prog.len();
    let sched = Sched::new(n);
    cstree::verif::set_hook(Some(sched.clone() as Arc<dyn cstree::verif::Hook>));
    set_current(Some(sched.clone()));
    let payload_base = DROPS.lock().unwrap().len();
    let obs = Mutex::new(vec![]);
    let data = Mutex::new(vec![]);
    let held: Mutex<Vec<Vec<cstree::sync::Arc<Payload>>>> = Mutex::new((0..n).map(|_| vec![]).collect());
    let mut choices = vec![];
    let mut steps = vec![];
    let root: Node = SyntaxNode::new_root(green);
    let handles: Vec<Node> = (0..n).map(|_| root.clone()).collect();
    let mut root_opt = Some(root);
    let panics = Mutex::new(vec![]);
    std::thread::scope(|s| {
        for (t, h) in handles.into_iter().enumerate() {
            let cx = ThreadCtx { t, sched: &sched, arena: &arena, obs: &obs, data: &data, held: &held };
            let ops = &prog[t];
            let sched_ref = &sched;
            let panics = &panics;
            s.spawn(move || {
                sched_ref.thread_start(t);
                let r = std::panic::catch_unwind(std::panic::AssertUnwindSafe(|| run_thread(cx, h, ops)));
                if r.is_err() {
                    panics.lock().unwrap().push(t);
                }
                sched_ref.thread_finish(t);
            });
        }
        if root_first {
            // the main handle goes away first: the last drop happens on one of the threads
            drop(root_opt.take());
        }
        let mut last: Option<usize> = None;
        while let Some(en) = sched.wait_quiescent() {
            if en.is_empty() {
                eprintln!("scheduler: no enabled thread (deadlock)");
                sched.report_deadlock();
            }
            let c = choose(&en, last);
            steps.push((en.clone(), c));
            choices.push(c);
            last = Some(c);
            sched.grant(c);
        }
    });
    // values handed out stay valid after replace/clear; release them now
    let handed: Vec<Vec<(u32, usize)>> = held.lock().unwrap().iter().map(|v| v.iter().map(|a| (a.v, a.id)).collect()).collect();
    let mut early: Vec<(u32, u32)> = vec![];
    {
        let drops = DROPS.lock().unwrap();
        for hs in &handed {
            for (v, id) in hs {
                if drops[*id] != 0 {
                    early.push((*v, drops[*id]));
                }
            }
        }
    }
    drop(held);
    drop(root_opt.take());
    cstree::verif::set_hook(None);
    set_current(None);
    let mut st = sched.take();
    let mut violations: Vec<(String, String)> = vec![];
    for t in panics.into_inner().unwrap() {
        violations.push(("C05".into(), format!("thread {} panicked", t)));
    }
    for (v, d) in early {
        violations.push(("C18".into(), format!("payload {} was dropped {} time(s) while a handle to it was still held", v, d)));
    }
    for v in st.heap_violations.drain(..) {
        violations.push(("C06".into(), v));
    }
    for v in st.lockset_violations.drain(..) {
        violations.push(("C05".into(), v));
    }
    if !st.live.is_empty() {
        violations.push(("C06".into(), format!("{} blocks of the tree are never freed", st.live.len())));
    }
    // identity: one key per position, one position per key; kind / range as the tree dictates
    let obs = obs.into_inner().unwrap();
    let mut by_pos: HashMap<usize, u64> = HashMap::new();
    let mut by_key: HashMap<u64, usize> = HashMap::new();
    for o in &obs {
        if let Some(p) = o.path {
            let rn = &arena.nodes[p];
            if rn.kind != o.kind || rn.start != o.range.0 || rn.end != o.range.1 || rn.text.is_some() == o.is_node {
                violations.push(("C05".into(), format!("thread {} got {}@{}..{} for the position of {}@{}..{}", o.tid, o.kind, o.range.0, o.range.1, rn.kind, rn.start, rn.end)));
            }
            match by_pos.get(&p) {
                Some(k) if *k != o.key => violations.push(("C05".into(), format!("two unequal handles for one position ({}@{}..{})", rn.kind, rn.start, rn.end))),
                _ => {
                    by_pos.insert(p, o.key);
                }
            }
            match by_key.get(&o.key) {
                Some(q) if *q != p => violations.push(("C05".into(), "one handle identity for two positions".into())),
                _ => {
                    by_key.insert(o.key, p);
                }
            }
        }
    }
    // payloads: every value created during this execution is dropped exactly once by now
    let drops = DROPS.lock().unwrap();
    let created = drops.len() - payload_base;
    let once = drops[payload_base..].iter().filter(|d| **d == 1).count();
    for (i, d) in drops[payload_base..].iter().enumerate() {
        if *d != 1 {
            violations.push(("C18".into(), format!("payload #{} dropped {} times", i, d)));
        }
    }
    drop(drops);
    let _ = handed;
    Exec {
        trace: st.trace,
        obs,
        data_log: data.into_inner().unwrap(),
        violations,
        choices,
        steps,
        deadlock: st.deadlock,
        payloads: (created, once),
    }
}

/// The data operations in the order in which they took effect: each operation is placed where it released the data lock
/// for the last time (its answer is decided inside that critical section); an operation that took no lock is placed where
/// it completed.  Completion order is not good enough: user code (a payload's destructor) runs between the critical
/// section and the return, and other threads may be scheduled there.
pub fn linearise_data(e: &Exec) -> Vec<(usize, String)> {
    let mut last_rel: HashMap<usize, usize> = HashMap::new();
    let mut keyed: Vec<(usize, usize, String)> = vec![];
    for (ix, (t, ev)) in e.trace.iter().enumerate() {
        match ev {
            Ev::Note(Note::Released { what: cstree::verif::LockKind::Data, .. }) => {
                last_rel.insert(*t, ix);
            }
            Ev::Op(s) => {
                let is_data = ["set ", "setf ", "tryset ", "get ", "clear "].iter().any(|p| s.starts_with(p));
                if is_data {
                    keyed.push((last_rel.remove(t).unwrap_or(ix), *t, s.clone()));
                }
            }
            _ => {}
        }
    }
    keyed.sort_by_key(|k| k.0);
    keyed.into_iter().map(|(_, t, s)| (t, s)).collect()
}

/// sequential specification of the data slot, applied in the order in which the operations took effect
pub fn check_data_log(log: &[(usize, String)], violations: &mut Vec<(String, String)>) {
    let mut cell: HashMap<String, Option<u32>> = HashMap::new();
    for (t, s) in log {
        let (body, slot) = s.rsplit_once(" @").unwrap_or((s, "?"));
        let c = cell.entry(slot.to_string()).or_insert(None);
        let ws: Vec<&str> = body.split(' ').collect();
        let bad = match ws.as_slice() {
            ["set", v, "->", r] | ["setf", v, "->", r] => {
                let ok = v == r;
                *c = v.parse().ok();
                !ok
            }
            ["tryset", v, "->", "ok", r] => {
                let ok = c.is_none() && v == r;
                *c = v.parse().ok();
                !ok
            }
            ["tryset", v, "->", "err", r] => !(c.is_some() && v == r),
            ["get", "->", "some", r] => *c != r.parse().ok(),
            ["get", "->", "none"] => c.is_some(),
            ["clear", "->", "()"] => {
                *c = None;
                false
            }
            _ => false,
        };
        if bad {
            violations.push(("C18".into(), format!("thread {}: `{}` is not what an atomic optional slot answers here", t, body)));
        }
    }
}

// -------------------------------------------------------------------------------------------------
// trace -> monitor protocol

/// the protocol lines for the Lean monitor of one execution
pub fn monitor_lines(e: &Exec, nthreads: usize) -> Vec<String> {
    let main = nthreads; // model index of the un-scheduled main thread
    let tix = |t: usize| if t == MAIN { main } else { t };
    // blocks: address -> generation id; slots: (block id, index) -> slot number
    let mut block_of: HashMap<usize, usize> = HashMap::new();
    let mut next_block = 0usize;
    let mut slots: HashMap<(usize, usize), usize> = HashMap::new();
    let mut lines: Vec<String> = vec![];
    let mut torn_by: Option<usize> = None;
    let mut torn_done = false;
    let mut frees_in_teardown = 0usize;
    let mut last_now: u32 = 0;
    // per thread: what the last lock point was, and what was seen since
    #[derive(Default, Clone)]
    struct Seg {
        read_lock: bool,
        write_lock: bool,
        pending_slot: Option<usize>,
    }
    let mut seg: HashMap<usize, Seg> = HashMap::new();
    let mut pending_rmw: HashMap<usize, RmwSite> = HashMap::new();
    // the tree of slots (for the recursive teardown): which slot the block of a slot's owner is installed in
    let mut installed_in: HashMap<usize, usize> = HashMap::new(); // block id -> slot
    let mut slot_info: Vec<(usize, Option<usize>, usize)> = vec![]; // (slot, parent slot, index)
    let mut last_alloc: HashMap<usize, usize> = HashMap::new(); // thread -> block id of its latest candidate
    let mut pending_is_node: HashMap<usize, bool> = HashMap::new();
    let mut tear: Vec<String> = vec![];
    let slot_info_cell = std::cell::RefCell::new(&mut slot_info);
    let installed_in_cell = std::cell::RefCell::new(&mut installed_in);
    let slot_id = |slots: &mut HashMap<(usize, usize), usize>, block_of: &HashMap<usize, usize>, node: usize, index: usize| -> usize {
        let b = *block_of.get(&node).unwrap_or(&usize::MAX);
        let n = slots.len();
        if !slots.contains_key(&(b, index)) {
            slot_info_cell.borrow_mut().push((n, installed_in_cell.borrow().get(&b).cloned(), index));
        }
        *slots.entry((b, index)).or_insert(n)
    };
    let flush_read = |t: usize, seg: &mut HashMap<usize, Seg>, lines: &mut Vec<String>| {
        // a read section that was followed by neither a hit nor a miss note is the re-read
        if let Some(s) = seg.get_mut(&t) {
            if s.read_lock {
                s.read_lock = false;
                lines.push(format!("ev {} reread", t));
            }
        }
    };
    for (ix, (t0, ev)) in e.trace.iter().enumerate() {
        let t = tix(*t0);
        match ev {
            Ev::Point(PointKind::Start) | Ev::Point(PointKind::User(_)) => {}
            // where a thread may be interrupted inside a critical section: no event of the protocol
            Ev::Point(PointKind::Hook(Point::InSection { .. })) => {}
            // a non-blocking acquisition attempt: the acquisition, if any, is the `Acquired` note that follows
            Ev::Point(PointKind::Hook(Point::TryLock { .. })) => {}
            // the end of a read section of a slot: followed (in the same run segment) by a hit or a miss
            // note unless it is the re-read after `try_write`
            Ev::Note(Note::Released { write: false, what: cstree::verif::LockKind::Slot, .. }) => {
                let next = e.trace[ix + 1..].iter().find(|(u, ev)| u == t0 && !matches!(ev, Ev::Note(Note::Access { .. }))).map(|(_, ev)| ev);
                if !matches!(next, Some(Ev::Note(Note::SlotHit { .. })) | Some(Ev::Note(Note::SlotMiss { .. }))) {
                    flush_read(t, &mut seg, &mut lines);
                }
            }
            Ev::Point(PointKind::Hook(Point::Lock { what: cstree::verif::LockKind::Slot, write, .. })) => {
                flush_read(t, &mut seg, &mut lines);
                let s = seg.entry(t).or_default();
                if *write {
                    s.write_lock = true;
                } else {
                    s.read_lock = true;
                }
            }
            Ev::Point(PointKind::Hook(Point::Lock { .. })) => {
                flush_read(t, &mut seg, &mut lines);
            }
            Ev::Point(PointKind::Hook(Point::Rmw { site })) => {
                flush_read(t, &mut seg, &mut lines);
                pending_rmw.insert(t, *site);
            }
            Ev::Op(_) => {
                flush_read(t, &mut seg, &mut lines);
            }
            Ev::Note(n) => match n {
                Note::Alloc { ptr, count_cell } => {
                    if !*count_cell {
                        block_of.insert(*ptr, next_block);
                        last_alloc.insert(t, next_block);
                        next_block += 1;
                    }
                }
                Note::Free { count_cell, ptr } => {
                    if torn_by == Some(t) {
                        if *count_cell {
                            tear.push("fc".into());
                            let info: Vec<String> = slot_info_cell.borrow().iter().map(|(s, p, i)| format!("{}:{}:{}", s, p.map(|p| p.to_string()).unwrap_or("r".into()), i)).collect();
                            lines.push(format!("ev {} tear {} {}", t, if info.is_empty() { "-".to_string() } else { info.join(",") }, tear.join(",")));
                        } else {
                            match block_of.get(ptr).and_then(|b| installed_in_cell.borrow().get(b).cloned()) {
                                Some(s) => tear.push(format!("f{}", s)),
                                None => tear.push("fr".into()),
                            }
                        }
                        if *count_cell {
                            lines.push(format!("ev {} torn {} {}", t, last_now as i32, frees_in_teardown));
                            torn_by = None;
                            torn_done = true;
                        } else {
                            frees_in_teardown += 1;
                        }
                    }
                }
                Note::SlotHit { node, index } => {
                    let s = slot_id(&mut slots, &block_of, *node, *index);
                    seg.entry(t).or_default().read_lock = false;
                    lines.push(format!("ev {} rdhit {}", t, s));
                }
                Note::SlotMiss { node, index, is_node } => {
                    let s = slot_id(&mut slots, &block_of, *node, *index);
                    let sg = seg.entry(t).or_default();
                    sg.read_lock = false;
                    sg.pending_slot = Some(s);
                    pending_is_node.insert(t, *is_node);
                    lines.push(format!("ev {} rdmiss {} {}", t, s, if *is_node { "n" } else { "t" }));
                }
                Note::Installed { node, index } => {
                    if pending_is_node.get(&t) == Some(&true) {
                        let s = slot_id(&mut slots, &block_of, *node, *index);
                        if let Some(b) = last_alloc.get(&t) {
                            installed_in_cell.borrow_mut().insert(*b, s);
                        }
                    }
                    seg.entry(t).or_default().write_lock = false;
                    lines.push(format!("ev {} install", t));
                }
                Note::Lost { .. } => {
                    seg.entry(t).or_default().write_lock = false;
                    lines.push(format!("ev {} lose", t));
                }
                Note::RmwDone { now } => {
                    last_now = *now;
                    match pending_rmw.remove(&t) {
                        Some(RmwSite::Clone) => lines.push(format!("ev {} inc {}", t, now)),
                        Some(RmwSite::LoserNode) | Some(RmwSite::LoserToken) => lines.push(format!("ev {} add {}", t, now)),
                        Some(RmwSite::Drop) => {
                            if torn_by == Some(t) {
                                tear.push("d".into());
                                lines.push(format!("ev {} tdec", t));
                            } else {
                                lines.push(format!("ev {} dec {}", t, now));
                                if *now == 0 {
                                    torn_by = Some(t);
                                    frees_in_teardown = 0;
                                }
                            }
                        }
                        None => {}
                    }
                }
                // a dereference of a red node: one `acc` per run of accesses of a thread (the teardown's own
                // accesses belong to the decrement that triggered it)
                Note::Access { .. } => {
                    if torn_by != Some(t) && !torn_done {
                        let l = format!("ev {} acc", t);
                        if lines.last() != Some(&l) {
                            lines.push(l);
                        }
                    }
                }
                _ => {}
            },
        }
    }
    let nslots = slots.len();
    let mut out = vec![format!("sys {} {}", nslots, nthreads)];
    out.extend(lines);
    out
}

// -------------------------------------------------------------------------------------------------
// exploration

fn default_choice(en: &[usize], last: Option<usize>) -> usize {
    match last {
        Some(l) if en.contains(&l) => l,
        _ => en[0],
    }
}

fn preemptions(steps: &[(Vec<usize>, usize)]) -> usize {
    let mut n = 0;
    let mut last: Option<usize> = None;
    for (en, c) in steps {
        if let Some(l) = last {
            if *c != l && en.contains(&l) {
                n += 1;
            }
        }
        last = Some(*c);
    }
    n
}

/// stateless DFS over schedules with a preemption bound
pub fn explore(tree: &RefTree, prog: &Prog, root_first: bool, bound: usize, max_execs: usize, on_exec: &mut dyn FnMut(Exec)) -> (usize, bool) {
    let mut prefix: Vec<usize> = vec![];
    let mut n = 0;
    loop {
        let mut i = 0usize;
        let pf = prefix.clone();
        let exec = execute(tree, prog, root_first, &mut |en, last| {
            let c = if i < pf.len() && en.contains(&pf[i]) { pf[i] } else { default_choice(en, last) };
            i += 1;
            c
        });
        let steps = exec.steps.clone();
        on_exec(exec);
        n += 1;
        if n >= max_execs {
            return (n, false);
        }
        // next schedule: the deepest decision with an untried alternative within the bound
        let mut found = None;
        for k in (0..steps.len()).rev() {
            let (en, c) = &steps[k];
            let pos = en.iter().position(|x| x == c).unwrap_or(0);
            for alt in &en[pos + 1..] {
                let mut cand: Vec<(Vec<usize>, usize)> = steps[..k].to_vec();
                cand.push((en.clone(), *alt));
                if preemptions(&cand) <= bound {
                    found = Some(cand.iter().map(|s| s.1).collect::<Vec<_>>());
                    break;
                }
            }
            if found.is_some() {
                break;
            }
        }
        match found {
            Some(p) => prefix = p,
            None => return (n, true),
        }
    }
}

fn nav_ops() -> Vec<Op> {
    ["fc", "lc", "fcn", "lcn", "ns", "ps", "up", "ft", "lt", "nt", "pt"].iter().map(|s| Op::Nav(s)).collect()
}

fn fixed_programs(what: &str) -> Vec<(Prog, bool)> {
    let n = |s: &'static str| Op::Nav(s);
    match what {
        "traverse" => vec![
            (vec![vec![n("fc")], vec![n("fc")]], false),
            (vec![vec![n("fc"), n("fc")], vec![n("fc"), n("fc")]], false),
            (vec![vec![n("lc")], vec![n("fc"), n("ns"), n("ns")]], false),
            (vec![vec![n("fc")], vec![n("lc")], vec![Op::Child(1)]], false),
            (vec![vec![n("fcn"), n("up")], vec![n("lcn"), n("ps")]], false),
            (vec![vec![n("ft"), n("nt")], vec![n("lt"), n("pt")]], false),
            (vec![vec![Op::Child(1)], vec![Op::Child(1)], vec![Op::Child(1)]], false),
            (vec![vec![n("fc"), n("ns")], vec![Op::Child(1), n("ps")]], true),
            (vec![vec![n("lcn"), n("lcn")], vec![n("lcn"), n("lcn")]], false),
            (vec![vec![n("lcn"), n("lc")], vec![n("lc"), n("fcn")]], false),
            (vec![vec![n("lcn"), n("lcn"), n("ps")], vec![n("fcn"), n("fcn")]], false),
            (vec![vec![n("lt"), n("pt")], vec![n("lcn"), n("fc"), n("ns")]], false),
            // for the tree with one deduplicated sub-tree at two positions of equal offset: both copies are visited
            (vec![vec![n("fcn"), n("fcn")], vec![Op::Child(1), n("fcn")]], false),
            (vec![vec![n("fc"), n("ns")], vec![n("fcn"), n("fcn"), n("up"), n("ns"), n("fcn")]], false),
            // for the tree with a zero-length token in front of another token of the same parent
            (vec![vec![n("fc"), n("ns"), n("ns")], vec![n("lc"), n("ps")]], false),
            (vec![vec![n("ft"), n("nt"), n("nt")], vec![n("lt"), n("pt")], vec![Op::Child(1)]], true),
            // threads that hold exactly one handle while they create elements (the other one finishes and lets go meanwhile)
            (vec![vec![Op::Lean, n("fcn")], vec![Op::Lean, n("fcn")]], true),
            (vec![vec![Op::Lean, n("fcn"), n("fc")], vec![Op::Lean, n("fcn")], vec![Op::Lean, n("lc")]], true),
        ],
        "lifecycle" => vec![
            (vec![vec![n("fc")], vec![n("fc")]], true),
            (vec![vec![Op::Dup, n("fc"), Op::Pop], vec![n("fc"), Op::Reset]], true),
            (vec![vec![n("fc"), Op::Dup, Op::Reset], vec![Op::Child(1), Op::Dup]], true),
            (vec![vec![Op::Dup, Op::Dup, Op::Pop], vec![n("lc")]], false),
            (vec![vec![n("fc"), n("fc")], vec![n("fc")], vec![Op::Dup]], true),
            (vec![vec![n("ft")], vec![n("ft"), Op::Reset]], true),
            (vec![vec![Op::Lean, n("fcn")], vec![Op::Lean, n("fcn")]], true),
            (vec![vec![Op::Lean, n("fc")], vec![Op::Lean, n("fc"), Op::Dup, Op::Pop]], true),
        ],
        _ => vec![
            (vec![vec![Op::TrySet(1)], vec![Op::TrySet(2)]], false),
            (vec![vec![Op::TrySet(1), Op::Get], vec![Op::TrySet(2), Op::Get]], false),
            (vec![vec![Op::Set(1), Op::Get], vec![Op::Clear, Op::Get]], false),
            (vec![vec![Op::Set(1), Op::Clear], vec![Op::Get, Op::TrySet(2)], vec![Op::Get]], true),
            (vec![vec![n("fcn"), Op::TrySet(1)], vec![n("fcn"), Op::TrySet(2), Op::Get]], false),
            (vec![vec![Op::Set(1), Op::Set(2)], vec![Op::Get, Op::Get]], true),
            // the slot is the only owner of a payload: its destructor runs inside whichever operation removes it
            (vec![vec![Op::SetForget(1), Op::Clear, Op::Get], vec![Op::SetForget(2), Op::Get, Op::TrySet(3)]], false),
            (vec![vec![Op::SetForget(1), Op::Clear], vec![Op::Set(2), Op::Get], vec![Op::Get, Op::Clear]], true),
            (vec![vec![Op::SetForget(1), Op::SetForget(2), Op::Get], vec![Op::Clear, Op::TrySet(3), Op::Get]], false),
        ],
    }
}

fn random_program(rng: &mut Rng, what: &str) -> (Prog, bool) {
    let nt = 2 + rng.below(2);
    let mut p = vec![];
    for _ in 0..nt {
        let len = 1 + rng.below(3);
        let mut ops = vec![];
        for _ in 0..len {
            let op = match what {
                "traverse" => {
                    if rng.chance(1, 6) {
                        Op::Child(rng.below(3))
                    } else {
                        rng.pick(&nav_ops()).clone()
                    }
                }
                "lifecycle" => match rng.below(6) {
                    0 => Op::Dup,
                    1 => Op::Pop,
                    2 => Op::Reset,
                    3 => Op::Child(rng.below(3)),
                    _ => rng.pick(&nav_ops()).clone(),
                },
                _ => match rng.below(8) {
                    0 => Op::Set(1 + rng.below(3) as u32),
                    7 => Op::SetForget(1 + rng.below(3) as u32),
                    1 | 2 => Op::TrySet(4 + rng.below(3) as u32),
                    3 | 4 => Op::Get,
                    5 => Op::Clear,
                    _ => Op::Nav("fcn"),
                },
            };
            ops.push(op);
        }
        if what != "data" && rng.chance(1, 3) {
            ops.insert(0, Op::Lean);
        }
        p.push(ops);
    }
    (p, rng.chance(1, 2))
}

pub fn conc_trees() -> Vec<RefTree> {
    vec![
        RefTree::Node(0, vec![RefTree::Node(1, vec![RefTree::Tok(10, "a".into())]), RefTree::Tok(10, "b".into()), RefTree::Node(2, vec![])]),
        RefTree::Node(0, vec![RefTree::Node(1, vec![RefTree::Node(2, vec![RefTree::Tok(11, "é".into())]), RefTree::Tok(10, "".into())]), RefTree::Tok(12, "+".into())]),
        RefTree::Node(0, vec![RefTree::Node(3, vec![]), RefTree::Node(1, vec![RefTree::Tok(10, "x".into()), RefTree::Tok(10, "y".into())])]),
        // nodes that do not start at offset 0, nested: offsets computed from the back and from the front must agree
        RefTree::Node(0, vec![
            RefTree::Tok(10, "a".into()),
            RefTree::Node(1, vec![RefTree::Tok(11, "é".into()), RefTree::Node(2, vec![RefTree::Tok(10, "c".into())]), RefTree::Node(3, vec![RefTree::Tok(10, "dd".into())])]),
        ]),
        // one (deduplicated) green sub-tree at two positions with the same offset: two positions, two identities
        RefTree::Node(0, vec![
            RefTree::Node(1, vec![RefTree::Node(2, vec![])]),
            RefTree::Node(1, vec![RefTree::Node(2, vec![])]),
            RefTree::Tok(10, "x".into()),
        ]),
        // a zero-length token directly in front of another token of the same parent: same offset, two positions
        RefTree::Node(0, vec![RefTree::Tok(10, "x".into()), RefTree::Tok(11, "".into()), RefTree::Tok(12, "+".into()), RefTree::Node(1, vec![RefTree::Tok(11, "".into()), RefTree::Tok(10, "y".into())])]),
    ]
}

/// `harness conc <what> --seed S --tier T --out DIR`
/// Two threads, released together, each take a child of the same never-visited node (the same child in even rounds, different
/// ones in odd rounds), then the main thread asks again: all handles to one position must be equal (`==` is identity of the red
/// element) and nothing may panic.
fn free_descent_stress(rounds: usize) -> (Option<String>, Vec<(String, u64)>) {
    use std::sync::atomic::AtomicUsize;
    let tree = RefTree::Node(0, vec![
        RefTree::Node(1, vec![RefTree::Tok(2, "a".into())]),
        RefTree::Tok(2, "b".into()),
        RefTree::Node(1, vec![RefTree::Tok(2, "c".into()), RefTree::Node(1, vec![])]),
    ]);
    let green = build_green(&tree);
    let mut done = 0u64;
    for r in 0..rounds {
        let root: Node = SyntaxNode::new_root(green.clone());
        let gate = AtomicUsize::new(0);
        let pick = |t: usize| if r % 2 == 0 { 2 } else { t * 2 };
        let res = std::thread::scope(|s| {
            let hs: Vec<_> = (0..2usize)
                .map(|t| {
                    let root = &root;
                    let gate = &gate;
                    s.spawn(move || {
                        gate.fetch_add(1, Ordering::SeqCst);
                        while gate.load(Ordering::SeqCst) < 2 {
                            std::hint::spin_loop();
                        }
                        catch(std::panic::AssertUnwindSafe(|| root.children_with_tokens().nth(pick(t)).map(|e| to_owned(e))))
                    })
                })
                .collect();
            hs.into_iter().map(|h| h.join().unwrap()).collect::<Vec<_>>()
        });
        done += 1;
        for (t, got) in res.iter().enumerate() {
            match got {
                Err(m) => return (Some(format!("round {}: thread {} panicked while taking child {} of a fresh node: {}", r, t, pick(t), m)), vec![("free_descent_rounds".into(), done)]),
                Ok(None) => return (Some(format!("round {}: thread {} found no child {}", r, t, pick(t))), vec![("free_descent_rounds".into(), done)]),
                Ok(Some(e)) => {
                    let again = root.children_with_tokens().nth(pick(t)).map(|e| to_owned(e));
                    if again.as_ref() != Some(e) {
                        return (Some(format!("round {}: the handle thread {} was given for child {} is not the element a later request finds there (two red elements for one position)", r, t, pick(t))), vec![("free_descent_rounds".into(), done)]);
                    }
                }
            }
        }
        if r % 2 == 0 {
            if let (Ok(Some(a)), Ok(Some(b))) = (&res[0], &res[1]) {
                if a != b {
                    return (Some(format!("round {}: two threads asking for the same child at the same moment hold different red elements", r)), vec![("free_descent_rounds".into(), done)]);
                }
            }
        }
    }
    (None, vec![("free_descent_rounds".into(), done)])
}

/// Four threads clone the only handle of a fresh tree through `&root` at the same moment and hand their clones back.  The root
/// carries a payload that counts its drops: the tree may be torn down only when the last of the five handles goes -- the payload
/// must still be alive after each of the first four drops and must have been dropped exactly once after the fifth.  On a violation
/// the handles that are left are leaked instead of dropped (they may point into freed memory).
fn free_clone_stress(rounds: usize) -> (Option<String>, Vec<(String, u64)>) {
    use std::sync::atomic::AtomicUsize;
    let tree = RefTree::Node(0, vec![RefTree::Tok(2, "a".into()), RefTree::Node(1, vec![RefTree::Tok(2, "b".into())])]);
    let green = build_green(&tree);
    let mut first: Option<String> = None;
    let mut done = 0u64;
    for r in 0..rounds {
        let root: Node = SyntaxNode::new_root(green.clone());
        let before = NEXT_PAYLOAD.load(Ordering::SeqCst) as usize;
        root.set_data(Payload::new(7));
        let gate = AtomicUsize::new(0);
        let clones: Vec<Node> = std::thread::scope(|s| {
            let hs: Vec<_> = (0..4)
                .map(|_| {
                    s.spawn(|| {
                        gate.fetch_add(1, Ordering::SeqCst);
                        while gate.load(Ordering::SeqCst) < 4 {
                            std::hint::spin_loop();
                        }
                        root.clone()
                    })
                })
                .collect();
            hs.into_iter().map(|h| h.join().unwrap()).collect()
        });
        let dropped = |id: usize| DROPS.lock().unwrap()[id];
        let mut handles: Vec<Node> = vec![root];
        handles.extend(clones);
        let total = handles.len();
        let mut k = 0usize;
        let mut bad: Option<String> = None;
        while let Some(h) = handles.pop() {
            drop(h);
            k += 1;
            let d = dropped(before);
            if k < total && d != 0 {
                bad = Some(format!("round {}: after dropping {} of {} handles the tree was already torn down (its data was dropped {} time(s)): a clone went uncounted", r, k, total, d));
                break;
            }
            if k == total && d != 1 {
                bad = Some(format!("round {}: after the last of {} handles the tree's data was dropped {} time(s) (exactly once expected)", r, total, d));
            }
        }
        for h in handles {
            std::mem::forget(h);
        }
        done += 1;
        if bad.is_some() {
            first = bad;
            break;
        }
    }
    (first, vec![("free_clone_rounds".into(), done)])
}

/// Real threads race the *first* data operations on a fresh node (a new red tree per round).  Per round two threads are
/// released together; the pair of operations rotates through (try_set, try_set), (try_set, set), (try_set, get),
/// (set, get).  Checked per round against the optional-slot specification: of two conditional sets on the empty slot
/// exactly one wins and the loser gets its own value back; a conditional set racing a plain set either wins first (then the
/// slot ends with the plain set's value) or is refused; a get sees nothing or the value being stored; what the slot holds
/// at the end is what the winning order says; after the tree is gone every payload made in the round was dropped once.
fn free_data_stress(rounds: usize) -> (Option<String>, Vec<(String, u64)>) {
    use std::sync::atomic::AtomicUsize;
    let tree = RefTree::Node(0, vec![RefTree::Tok(2, "a".into()), RefTree::Node(1, vec![RefTree::Tok(2, "b".into())])]);
    let green = build_green(&tree);
    let mut both_ok = 0u64;
    let mut none_ok = 0u64;
    let mut overlapped = 0u64;
    let mut first: Option<String> = None;
    for r in 0..rounds {
        let root: Node = SyntaxNode::new_root(green.clone());
        let made_before = NEXT_PAYLOAD.load(Ordering::SeqCst) as usize;
        let gate = Arc::new(AtomicUsize::new(0));
        let kind = r % 4;
        let spawn = |me: usize, node: Node, gate: Arc<AtomicUsize>| {
            std::thread::spawn(move || {
                gate.fetch_add(1, Ordering::SeqCst);
                while gate.load(Ordering::SeqCst) < 2 {
                    std::hint::spin_loop();
                }
                let t0 = std::time::Instant::now();
                let out = match (kind, me) {
                    (0, _) | (1, 0) | (2, 0) => match node.try_set_data(Payload::new(10 + me as u32)) {
                        Ok(a) => format!("ok {}", a.v),
                        Err(p) => format!("err {}", p.v),
                    },
                    (1, _) | (3, 0) => format!("set {}", node.set_data(Payload::new(10 + me as u32)).v),
                    _ => match node.get_data() {
                        Some(a) => format!("some {}", a.v),
                        None => "none".to_string(),
                    },
                };
                (out, t0, std::time::Instant::now())
            })
        };
        let h0 = spawn(0, root.clone(), gate.clone());
        let h1 = spawn(1, root.clone(), gate.clone());
        let (o0, s0, e0) = h0.join().unwrap();
        let (o1, s1, e1) = h1.join().unwrap();
        if s0 < e1 && s1 < e0 {
            overlapped += 1;
        }
        let end = root.get_data().map(|a| a.v);
        let verdict: Option<String> = match kind {
            0 => {
                let oks = [&o0, &o1].iter().filter(|o| o.starts_with("ok")).count();
                if oks == 2 { both_ok += 1; }
                if oks == 0 { none_ok += 1; }
                let own_back = (o0 == "ok 10" || o0 == "err 10") && (o1 == "ok 11" || o1 == "err 11");
                let winner = if o0.starts_with("ok") { Some(10) } else if o1.starts_with("ok") { Some(11) } else { None };
                if oks != 1 || !own_back || end != winner {
                    Some(format!("two conditional sets on an empty slot: thread 0 -> {}, thread 1 -> {}, slot afterwards {:?} (exactly one must win, the other gets its value back)", o0, o1, end))
                } else { None }
            }
            1 => {
                // try_set(10) || set(11): try wins first (then set overwrites) or is refused; either way the slot ends with 11
                if !(o0 == "ok 10" || o0 == "err 10") || o1 != "set 11" || end != Some(11) {
                    Some(format!("try_set(10) against set(11) on an empty slot: {} / {}, slot afterwards {:?} (must hold 11)", o0, o1, end))
                } else { None }
            }
            2 => {
                if o0 != "ok 10" || !(o1 == "none" || o1 == "some 10") || end != Some(10) {
                    Some(format!("try_set(10) against get on an empty slot: {} / {}, slot afterwards {:?} (the set must win, the get sees nothing or 10)", o0, o1, end))
                } else { None }
            }
            _ => {
                if o0 != "set 10" || !(o1 == "none" || o1 == "some 10") || end != Some(10) {
                    Some(format!("set(10) against get on an empty slot: {} / {}, slot afterwards {:?}", o0, o1, end))
                } else { None }
            }
        };
        drop(root);
        let made_after = NEXT_PAYLOAD.load(Ordering::SeqCst) as usize;
        let drops: Vec<u32> = DROPS.lock().unwrap()[made_before..made_after].to_vec();
        let verdict = verdict.or_else(|| {
            if drops.iter().any(|d| *d != 1) {
                Some(format!("after the tree was dropped the {} payloads of the round were dropped {:?} times (each exactly once); operations: {} / {}", drops.len(), drops, o0, o1))
            } else { None }
        });
        if first.is_none() {
            if let Some(v) = verdict {
                first = Some(format!("round {} (pair kind {}): {}", r, kind, v));
            }
        }
    }
    (first, vec![("free_rounds".into(), rounds as u64), ("free_rounds_overlapping".into(), overlapped),
                 ("free_both_conditional_sets_won".into(), both_ok), ("free_no_conditional_set_won".into(), none_ok)])
}

pub fn run_conc(what: &str, seed: u64, tier: &str, outdir: &str) {
    quiet_panics();
    clear_statics();
    for (k, t) in STATICS {
        set_static(k, t);
    }
    let mut rng = Rng::new(seed ^ 0xC05C0);
    let thorough = tier == "thorough";
    let mut ops: Vec<String> = vec![];
    let mut imp: Vec<String> = vec![];
    let mut oracle: Vec<String> = vec![];
    let mut case = 0usize;
    let mut dist: std::collections::BTreeMap<String, u64> = Default::default();
    let mut nontrivial: Vec<usize> = vec![];
    let trees = conc_trees();
    let mut programs = fixed_programs(what);
    let n_fixed = programs.len();
    let n_random = if thorough { 60 } else { 10 };
    for _ in 0..n_random {
        programs.push(random_program(&mut rng, what));
    }
    let bound = if thorough { 2 } else { 1 };
    let max_execs = if thorough { 4000 } else { 250 };
    let n_random_sched = if thorough { 200 } else { 30 };
    let mut total_execs = 0u64;
    let mut exhaustive_programs = 0u64;
    let _ = std::fs::remove_file(format!("{}/fatal.json", outdir));
    for (pi, (prog, root_first)) in programs.iter().enumerate() {
        // the back-to-front programs of the traversal suite belong to the nested tree
        let tree = if what == "traverse" && (8..12).contains(&pi) {
            &trees[3]
        } else if what == "traverse" && (12..14).contains(&pi) {
            &trees[4]
        } else if what == "traverse" && (14..16).contains(&pi) {
            &trees[5]
        } else if pi < n_fixed {
            &trees[pi % 4]
        } else {
            &trees[pi % trees.len()]
        };
        *crate::sched::FATAL.lock().unwrap() =
            Some((outdir.to_string(), format!("tree={} prog={} root_first={}", tree.dump(), show_prog(prog), root_first)));
        let mut handle = |e: Exec, mode: &str, ops: &mut Vec<String>, imp: &mut Vec<String>, oracle: &mut Vec<String>, case: &mut usize| {
            let mut e = e;
            let lin = linearise_data(&e);
            if lin.len() == e.data_log.len() {
                e.data_log = lin;
            }
            check_data_log(&e.data_log, &mut e.violations);
            if std::env::var("CONC_DUMP_CASE").ok().and_then(|v| v.parse::<usize>().ok()) == Some(*case) {
                for (t, ev) in &e.trace {
                    if !matches!(ev, Ev::Note(Note::Access { .. })) {
                        eprintln!("{} {:?}", if *t == MAIN { 9 } else { *t }, ev);
                    }
                }
            }
            ops.push(format!("case {}", *case));
            imp.push(format!("case {}", *case));
            let descr = format!("{} tree={} prog={} root_first={} schedule={}", mode, tree.dump(), show_prog(prog), root_first,
                e.choices.iter().map(|c| c.to_string()).collect::<Vec<_>>().join(""));
            ops.push(format!("note {}", hex(&descr)));
            imp.push("ok".into());
            let first_line = ops.len();
            for l in monitor_lines(&e, prog.len()) {
                // main's clones hand one handle to each thread
                ops.push(l.clone());
                imp.push("ok".into());
            }
            // the data operations, in completion order, for the model of the data slot
            let mut n_dev = 0usize;
            for (t, s) in &e.data_log {
                let (body, slot) = s.rsplit_once(" @").unwrap_or((s, "?"));
                let ws: Vec<&str> = body.split(' ').collect();
                let mut push = |o: String, i: String| {
                    ops.push(o);
                    imp.push(i);
                };
                match ws.as_slice() {
                    ["set", v, "->", r] => push(format!("dev {} s{} set {}", t, slot, v), format!("arc {}", r)),
                    ["setf", v, "->", r] => {
                        push(format!("dev {} s{} set {}", t, slot, v), format!("arc {}", r));
                        // the handle that came back is dropped at once
                        push(format!("dev {} s{} drop {}", t, slot, v), "ok".into());
                    }
                    ["tryset", v, "->", "ok", r] => push(format!("dev {} s{} tryset {}", t, slot, v), format!("arc {}", r)),
                    ["tryset", v, "->", "err", r] => {
                        push(format!("dev {} s{} tryset {}", t, slot, v), format!("back {}", r));
                        // the harness drops the value that came back at once
                        push(format!("dev {} s{} drop {}", t, slot, v), "ok".into());
                    }
                    ["get", "->", "some", r] => push(format!("dev {} s{} get", t, slot), format!("some {}", r)),
                    ["get", "->", "none"] => push(format!("dev {} s{} get", t, slot), "none".into()),
                    ["clear", "->", "()"] => push(format!("dev {} s{} clear", t, slot), "unit".into()),
                    _ => {}
                }
                n_dev += 1;
                let key = match ws.as_slice() {
                    ["set", ..] => "data_set",
                    ["setf", ..] => "data_set_forget",
                    ["tryset", _, "->", "ok", _] => "data_tryset_won",
                    ["tryset", ..] => "data_tryset_refused",
                    ["get", "->", "some", _] => "data_get_some",
                    ["get", ..] => "data_get_none",
                    _ => "data_clear",
                };
                *dist.entry(key.into()).or_insert(0) += 1;
            }
            if n_dev > 0 {
                ops.push("dend".into());
                imp.push(format!("made {} once {} left 0", e.payloads.0, e.payloads.1));
            }
            // insert the `send`s: the k-th `inc` of main gives a handle to thread k
            let main = prog.len();
            let mut k = 0;
            let mut i = first_line;
            while i < ops.len() && k < prog.len() {
                if ops[i].starts_with(&format!("ev {} inc ", main)) {
                    ops.insert(i + 1, format!("ev {} send {}", main, k));
                    imp.insert(i + 1, "ok".into());
                    k += 1;
                    i += 1;
                }
                i += 1;
            }
            for (p, w) in &e.violations {
                let w: String = w.chars().map(|c| if c == '\n' || c == '\r' || c == '\t' { ' ' } else { c }).collect();
                oracle.push(format!("{}\t{}\t{}\t{}", *case, first_line, p, w));
            }
            let races = e.trace.iter().filter(|(_, ev)| matches!(ev, Ev::Note(Note::Lost { .. }))).count();
            *dist.entry("executions".into()).or_insert(0) += 1;
            *dist.entry("creation_races_lost".into()).or_insert(0) += races as u64;
            *dist.entry("observations".into()).or_insert(0) += e.obs.len() as u64;
            *dist.entry("data_ops".into()).or_insert(0) += e.data_log.len() as u64;
            *dist.entry("payloads_created".into()).or_insert(0) += e.payloads.0 as u64;
            *dist.entry("scheduling_decisions".into()).or_insert(0) += e.steps.len() as u64;
            if e.steps.iter().any(|(en, _)| en.len() > 1) {
                nontrivial.push(*case);
            }
            *case += 1;
        };
        let (n, complete) = explore(tree, prog, *root_first, bound, max_execs, &mut |e| {
            handle(e, "dfs", &mut ops, &mut imp, &mut oracle, &mut case)
        });
        total_execs += n as u64;
        if complete {
            exhaustive_programs += 1;
        }
        for _ in 0..n_random_sched {
            let mut r2 = Rng::new(rng.next());
            let e = execute(tree, prog, *root_first, &mut |en, _| en[r2.below(en.len())]);
            handle(e, "random", &mut ops, &mut imp, &mut oracle, &mut case);
            total_execs += 1;
        }
    }
    if what == "traverse" {
        // free-running part: two threads make their first descent into the same fresh node at the same moment (a table of slots that
        // is allocated on first use would be published in a window without any lock operation)
        let rounds = if thorough { 20000 } else { 4000 };
        let (viol, stats) = free_descent_stress(rounds);
        for (k, v) in stats {
            dist.insert(k, v);
        }
        if let Some(w) = viol {
            ops.push(format!("case {}", case));
            imp.push(format!("case {}", case));
            ops.push(format!("note {}", hex(&format!("free-running first descents into a fresh node, {} rounds: {}", rounds, w))));
            imp.push("ok".into());
            oracle.push(format!("{}\t{}\tC05\t{}", case, ops.len() - 1, w));
            case += 1;
        }
    }
    if what == "lifecycle" {
        // free-running part: what happens between two hook points -- a load followed by a store where a read-modify-write
        // belongs -- is invisible to the scheduler; real threads clone the only handle through a shared borrow at the same moment
        let rounds = if thorough { 20000 } else { 4000 };
        let (viol, stats) = free_clone_stress(rounds);
        for (k, v) in stats {
            dist.insert(k, v);
        }
        if let Some(w) = viol {
            ops.push(format!("case {}", case));
            imp.push(format!("case {}", case));
            ops.push(format!("note {}", hex(&format!("free-running clones of the only handle through a shared borrow, {} rounds: {}", rounds, w))));
            imp.push("ok".into());
            oracle.push(format!("{}\t{}\tC06\t{}", case, ops.len() - 1, w));
            case += 1;
        }
    }
    if what == "data" {
        // free-running part (no scheduler: the hooks are inert): what happens between two lock operations -- e.g. a slot
        // that is allocated on first use -- is invisible to a scheduler that switches at lock points, so the first
        // data operations on fresh nodes are also raced by real threads and judged by the same sequential specification
        let rounds = if thorough { 60000 } else { 12000 };
        let (viol, stats) = free_data_stress(rounds);
        for (k, v) in stats {
            dist.insert(k, v);
        }
        if let Some(w) = viol {
            ops.push(format!("case {}", case));
            imp.push(format!("case {}", case));
            ops.push(format!("note {}", hex(&format!("free-running first-use races on fresh nodes, {} rounds: {}", rounds, w))));
            imp.push("ok".into());
            oracle.push(format!("{}\t{}\tC18\t{}", case, ops.len() - 1, w));
            case += 1;
        }
    }
    dist.insert("programs".into(), programs.len() as u64);
    dist.insert("programs_explored_exhaustively_within_bound".into(), exhaustive_programs);
    dist.insert("preemption_bound".into(), bound as u64);
    let _ = total_execs;
    std::fs::create_dir_all(outdir).unwrap();
    std::fs::write(format!("{}/ops.txt", outdir), ops.join("\n") + "\n").unwrap();
    std::fs::write(format!("{}/impl.txt", outdir), imp.join("\n") + "\n").unwrap();
    std::fs::write(format!("{}/oracle.txt", outdir), if oracle.is_empty() { String::new() } else { oracle.join("\n") + "\n" }).unwrap();
    let d = serde_json::json!({ "dist": dist, "cases": case, "nontrivial_cases": nontrivial,
        "debug_build": cfg!(debug_assertions), "lasso_build": cfg!(feature = "lasso") });
    std::fs::write(format!("{}/dist.json", outdir), d.to_string() + "\n").unwrap();
}
