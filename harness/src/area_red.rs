//! Red area (C02, C03, C11, C13, C14, C19): every navigation operation of nodes, tokens and
//! elements through the plain and the resolved API, offset/range queries, replacement, formatting.
use crate::area_builder::{dump_green, BuilderArea, RefTree};
use crate::area_green::GEl;
use crate::interp::Ctx;
use crate::reftree::{Arena, Nav2};
use crate::util::*;
use cstree::syntax::{ResolvedElement, ResolvedElementRef, ResolvedNode, ResolvedToken, SyntaxElement, SyntaxElementRef, SyntaxNode, SyntaxToken};
use cstree::text::{TextRange, TextSize};
use cstree::traversal::{Direction, WalkEvent};
use cstree::util::{NodeOrToken, TokenAtOffset};
use std::collections::HashMap;

pub type El = SyntaxElement<K>;

pub trait ToEl {
    fn to_el(self) -> El;
}
impl ToEl for &SyntaxNode<K> {
    fn to_el(self) -> El {
        NodeOrToken::Node(self.clone())
    }
}
impl ToEl for &SyntaxToken<K> {
    fn to_el(self) -> El {
        NodeOrToken::Token(self.clone())
    }
}
impl ToEl for &ResolvedNode<K> {
    fn to_el(self) -> El {
        NodeOrToken::Node(self.syntax().clone())
    }
}
impl ToEl for &ResolvedToken<K> {
    fn to_el(self) -> El {
        NodeOrToken::Token(self.syntax().clone())
    }
}
impl ToEl for SyntaxElementRef<'_, K> {
    fn to_el(self) -> El {
        match self {
            NodeOrToken::Node(n) => NodeOrToken::Node(n.clone()),
            NodeOrToken::Token(t) => NodeOrToken::Token(t.clone()),
        }
    }
}
impl ToEl for ResolvedElementRef<'_, K> {
    fn to_el(self) -> El {
        match self {
            NodeOrToken::Node(n) => NodeOrToken::Node(n.syntax().clone()),
            NodeOrToken::Token(t) => NodeOrToken::Token(t.syntax().clone()),
        }
    }
}

pub enum Nav {
    Opt(Option<El>),
    List(Vec<El>),
    Walk(Vec<(bool, El)>),
    Num(usize),
    NA,
}

fn dir(d: &str) -> Direction {
    if d == "next" {
        Direction::Next
    } else {
        Direction::Prev
    }
}
fn ts(s: &str) -> TextSize {
    TextSize::from(s.parse::<u32>().unwrap_or(0))
}

/// all node operations, written once and instantiated for `&SyntaxNode` and `&ResolvedNode`
macro_rules! node_ops {
    ($n:expr, $ws:expr) => {{
        let n = $n;
        match $ws {
            ["parent"] => Nav::Opt(n.parent().map(|x| x.to_el())),
            ["ancestors"] => Nav::List(n.ancestors().map(|x| x.to_el()).collect()),
            ["first_child"] => Nav::Opt(n.first_child().map(|x| x.to_el())),
            ["first_child_or_token"] => Nav::Opt(n.first_child_or_token().map(|x| x.to_el())),
            ["last_child"] => Nav::Opt(n.last_child().map(|x| x.to_el())),
            ["last_child_or_token"] => Nav::Opt(n.last_child_or_token().map(|x| x.to_el())),
            ["next_sibling"] => Nav::Opt(n.next_sibling().map(|x| x.to_el())),
            ["next_sibling_or_token"] => Nav::Opt(n.next_sibling_or_token().map(|x| x.to_el())),
            ["prev_sibling"] => Nav::Opt(n.prev_sibling().map(|x| x.to_el())),
            ["prev_sibling_or_token"] => Nav::Opt(n.prev_sibling_or_token().map(|x| x.to_el())),
            ["next_child_after", i, o] => Nav::Opt(n.next_child_after(i.parse().unwrap_or(0), ts(o)).map(|x| x.to_el())),
            ["next_child_or_token_after", i, o] => {
                Nav::Opt(n.next_child_or_token_after(i.parse().unwrap_or(0), ts(o)).map(|x| x.to_el()))
            }
            ["prev_child_before", i, o] => Nav::Opt(n.prev_child_before(i.parse().unwrap_or(0), ts(o)).map(|x| x.to_el())),
            ["prev_child_or_token_before", i, o] => {
                Nav::Opt(n.prev_child_or_token_before(i.parse().unwrap_or(0), ts(o)).map(|x| x.to_el()))
            }
            ["children"] => Nav::List(n.children().map(|x| x.to_el()).collect()),
            ["children_with_tokens"] => Nav::List(n.children_with_tokens().map(|x| x.to_el()).collect()),
            ["siblings", d] => Nav::List(n.siblings(dir(d)).map(|x| x.to_el()).collect()),
            ["siblings_with_tokens", d] => Nav::List(n.siblings_with_tokens(dir(d)).map(|x| x.to_el()).collect()),
            ["descendants"] => Nav::List(n.descendants().map(|x| x.to_el()).collect()),
            ["descendants_with_tokens"] => Nav::List(n.descendants_with_tokens().map(|x| x.to_el()).collect()),
            ["preorder"] => Nav::Walk(
                n.preorder()
                    .map(|e| match e {
                        WalkEvent::Enter(x) => (true, x.to_el()),
                        WalkEvent::Leave(x) => (false, x.to_el()),
                    })
                    .collect(),
            ),
            ["preorder_with_tokens"] => Nav::Walk(
                n.preorder_with_tokens()
                    .map(|e| match e {
                        WalkEvent::Enter(x) => (true, x.to_el()),
                        WalkEvent::Leave(x) => (false, x.to_el()),
                    })
                    .collect(),
            ),
            ["first_token"] => Nav::Opt(n.first_token().map(|x| x.to_el())),
            ["last_token"] => Nav::Opt(n.last_token().map(|x| x.to_el())),
            ["arity"] => Nav::Num(n.arity()),
            ["arity_with_tokens"] => Nav::Num(n.arity_with_tokens()),
            _ => Nav::NA,
        }
    }};
}

macro_rules! token_ops {
    ($t:expr, $ws:expr) => {{
        let t = $t;
        match $ws {
            ["parent"] => Nav::Opt(Some(t.parent().to_el())),
            ["ancestors"] => Nav::List(t.ancestors().map(|x| x.to_el()).collect()),
            ["next_sibling_or_token"] => Nav::Opt(t.next_sibling_or_token().map(|x| x.to_el())),
            ["prev_sibling_or_token"] => Nav::Opt(t.prev_sibling_or_token().map(|x| x.to_el())),
            ["siblings_with_tokens", d] => Nav::List(t.siblings_with_tokens(dir(d)).map(|x| x.to_el()).collect()),
            ["next_token"] => Nav::Opt(t.next_token().map(|x| x.to_el())),
            ["prev_token"] => Nav::Opt(t.prev_token().map(|x| x.to_el())),
            _ => Nav::NA,
        }
    }};
}

/// the element-level forwarders, instantiated for `SyntaxElement`, `SyntaxElementRef`, `ResolvedElement`, `ResolvedElementRef`
macro_rules! elem_ops {
    ($e:expr, $ws:expr) => {{
        let e = $e;
        match $ws {
            ["parent"] => Nav::Opt(e.parent().map(|x| x.to_el())),
            ["ancestors"] => Nav::List(e.ancestors().map(|x| x.to_el()).collect()),
            ["first_token"] => Nav::Opt(e.first_token().map(|x| x.to_el())),
            ["last_token"] => Nav::Opt(e.last_token().map(|x| x.to_el())),
            ["next_sibling_or_token"] => Nav::Opt(e.next_sibling_or_token().map(|x| x.to_el())),
            ["prev_sibling_or_token"] => Nav::Opt(e.prev_sibling_or_token().map(|x| x.to_el())),
            _ => Nav::NA,
        }
    }};
}

pub fn resolved_elem(e: &El) -> ResolvedElement<K> {
    match e {
        NodeOrToken::Node(n) => ResolvedElement::from(n.resolved().clone()),
        NodeOrToken::Token(t) => ResolvedElement::from(t.resolved().clone()),
    }
}

fn hash_of<T: std::hash::Hash>(x: &T) -> u64 {
    use std::hash::Hasher;
    let mut h = std::collections::hash_map::DefaultHasher::new();
    x.hash(&mut h);
    h.finish()
}

/// Every API surface reports the same kind and span for one element: the element enum (owned and by reference), the
/// resolved wrappers (node / token, element enum owned and by reference).  Returns a description of the first difference.
pub fn surfaces_disagree(e: &El) -> Option<String> {
    let base = (e.syntax_kind(), e.text_range(), e.kind().0);
    let er: SyntaxElementRef<'_, K> = e.into();
    let re = resolved_elem(e);
    let rr: ResolvedElementRef<'_, K> = (&re).into();
    let direct = match e {
        NodeOrToken::Node(n) => (n.syntax_kind(), n.text_range(), n.kind().0),
        NodeOrToken::Token(t) => (t.syntax_kind(), t.text_range(), t.kind().0),
    };
    let wrapped = match e {
        NodeOrToken::Node(n) => (n.resolved().syntax_kind(), n.resolved().text_range(), n.resolved().kind().0),
        NodeOrToken::Token(t) => (t.resolved().syntax_kind(), t.resolved().text_range(), t.resolved().kind().0),
    };
    let all = [
        ("node/token", direct),
        ("SyntaxElementRef", (er.syntax_kind(), er.text_range(), er.kind().0)),
        ("resolved node/token", wrapped),
        ("ResolvedElement", (re.syntax_kind(), re.text_range(), re.kind().0)),
        ("ResolvedElementRef", (rr.syntax_kind(), rr.text_range(), rr.kind().0)),
    ];
    for (name, v) in all {
        if v != base {
            return Some(format!("{} reports {:?} but SyntaxElement reports {:?}", name, v, base));
        }
    }
    if base.0 .0 != base.2 {
        return Some(format!("kind() is {} but syntax_kind() is {}", base.2, base.0 .0));
    }
    // the wrappers' own identity conversions
    match e {
        NodeOrToken::Node(n) => {
            let rn = n.resolved();
            let via: ResolvedElementRef<'_, K> = rn.into();
            if !std::ptr::eq(rn.resolved(), rn) || rn.try_resolved().map(|x| x as *const _) != Some(rn as *const _) || via.syntax_kind() != base.0 || via.text_range() != base.1 {
                return Some("ResolvedNode::resolved / try_resolved / into ResolvedElementRef is not the node itself".into());
            }
        }
        NodeOrToken::Token(t) => {
            let rt = t.resolved();
            let via: ResolvedElementRef<'_, K> = rt.into();
            if !std::ptr::eq(rt.resolved(), rt) || rt.try_resolved().map(|x| x as *const _) != Some(rt as *const _) || via.syntax_kind() != base.0 || via.text_range() != base.1 {
                return Some("ResolvedToken::resolved / try_resolved / into ResolvedElementRef is not the token itself".into());
            }
        }
    }
    // accessors of the enum
    let is_node = matches!(e, NodeOrToken::Node(_));
    if e.as_node().is_some() != is_node || e.as_token().is_some() == is_node || e.clone().into_node().is_some() != is_node || e.clone().into_token().is_some() == is_node {
        return Some("as_node / as_token / into_node / into_token disagree with the variant".into());
    }
    None
}

/// `==` / `Hash` / `Clone` of the resolved wrappers are those of what they wrap
pub fn wrapper_identity_disagrees(a: &El, b: &El) -> Option<String> {
    let (ra, rb) = (resolved_elem(a), resolved_elem(b));
    if (ra == rb) != (a == b) {
        return Some(format!("resolved wrappers compare {} but the elements compare {}", ra == rb, a == b));
    }
    if a == b && hash_of(&ra) != hash_of(&rb) {
        return Some("equal resolved wrappers hash differently".into());
    }
    if hash_of(&ra) != hash_of(&ra.clone()) || ra.clone() != ra {
        return Some("a cloned resolved wrapper is not equal to the original".into());
    }
    match (a, b) {
        (NodeOrToken::Node(x), NodeOrToken::Node(y)) => {
            if (x.resolved() == y.resolved()) != (x == y) || (x == y && hash_of(x.resolved()) != hash_of(y.resolved())) {
                return Some("ResolvedNode ==/Hash differs from SyntaxNode ==/Hash".into());
            }
        }
        (NodeOrToken::Token(x), NodeOrToken::Token(y)) => {
            if (x.resolved() == y.resolved()) != (x == y) || (x == y && hash_of(x.resolved()) != hash_of(y.resolved())) {
                return Some("ResolvedToken ==/Hash differs from SyntaxToken ==/Hash".into());
            }
        }
        _ => {}
    }
    None
}

pub struct RTree {
    pub root:     ResolvedNode<K>,
    pub slot:     usize,
    pub arena:    Option<Arena>,
    /// element id -> arena id (reference position)
    pub pos:      HashMap<usize, usize>,
    pub snap:     SnapResolver,
}

#[derive(Default)]
pub struct RedState {
    pub trees:    Vec<RTree>,
    pub elems:    Vec<(usize, El)>,
    pub ids:      HashMap<(usize, El), usize>,
    pub resolved: bool,
    /// 0 plain, 1 resolved, 2 `SyntaxElement`, 3 `SyntaxElementRef`, 4 `ResolvedElement`, 5 `ResolvedElementRef` (element-level
    /// requests go through the enum's forwarders; everything else through the plain (2, 3) / resolved (4, 5) node and token API)
    pub surface:  u8,
}

fn range_of(e: &El) -> (usize, usize) {
    let r = e.text_range();
    (u32::from(r.start()) as usize, u32::from(r.end()) as usize)
}

pub fn unescape_debug(s: &str) -> Option<String> {
    let inner = s.strip_prefix('"')?.strip_suffix('"')?;
    let mut out = String::new();
    let mut it = inner.chars().peekable();
    while let Some(c) = it.next() {
        if c != '\\' {
            out.push(c);
            continue;
        }
        match it.next()? {
            'n' => out.push('\n'),
            'r' => out.push('\r'),
            't' => out.push('\t'),
            '0' => out.push('\0'),
            '\\' => out.push('\\'),
            '"' => out.push('"'),
            '\'' => out.push('\''),
            'u' => {
                if it.next()? != '{' {
                    return None;
                }
                let mut h = String::new();
                loop {
                    let d = it.next()?;
                    if d == '}' {
                        break;
                    }
                    h.push(d);
                }
                out.push(char::from_u32(u32::from_str_radix(&h, 16).ok()?)?);
            }
            _ => return None,
        }
    }
    // the quoted form must be exactly Rust's `{:?}` of the text: quotes, backslashes and control characters escaped
    if format!("{:?}", out) != s {
        return None;
    }
    Some(out)
}

impl BuilderArea {
    /// the tree's reference count is the number of handles that exist: the one the harness keeps per tree, two per
    /// registered element (list + index), nothing else once an operation has returned (whatever the operation handed out
    /// and was dropped again must have been counted up and down)
    pub fn count_oracle(&mut self, cx: &mut Ctx<'_>) {
        for (t, tr) in self.red.trees.iter().enumerate() {
            let mut want = 1u32;
            for (tt, _) in &self.red.elems {
                if *tt == t {
                    want += 2;
                }
            }
            // lazy text views keep a handle of their node
            want += self.views.iter().filter(|v| v.tree == t).count() as u32;
            let got = tr.root.syntax().verif_ref_count();
            if got != want {
                cx.fail("C06", format!("tree {}: {} handles exist but the tree's reference count is {}", t, want, got));
            }
        }
    }

    fn show_el(&mut self, t: usize, e: &El, expect: Option<usize>, cx: &mut Ctx<'_>, what: &str) -> String {
        let key = (t, e.clone());
        let id = match self.red.ids.get(&key) {
            Some(i) => *i,
            None => {
                let i = self.red.elems.len();
                // the element seen through every API surface, and the wrappers' identity against the previous element
                let prev = self.red.elems.iter().rev().find(|(tt, _)| *tt == t).map(|(_, p)| p.clone());
                let r = catch(|| (surfaces_disagree(e), prev.as_ref().and_then(|p| wrapper_identity_disagrees(e, p)), wrapper_identity_disagrees(e, e)));
                match r {
                    Ok((a, b, c)) => {
                        for m in [a, b, c].into_iter().flatten() {
                            cx.fail("C03", format!("{}: {}", what, m));
                        }
                    }
                    Err(m) => cx.fail("C03", format!("{}: reading the element through the API surfaces panicked: {}", what, m)),
                }
                self.red.elems.push((t, e.clone()));
                self.red.ids.insert(key, i);
                i
            }
        };
        let (s, en) = range_of(e);
        let is_node = matches!(e, NodeOrToken::Node(_));
        let kind = e.syntax_kind().0;
        if let (Some(x), Some(arena)) = (expect, self.red.trees[t].arena.as_ref()) {
            let rn = &arena.nodes[x];
            if rn.kind != kind || rn.start != s || rn.end != en || rn.text.is_some() == is_node {
                // the right element with the wrong span is a C02 failure, a wrong element a C03 one
                let prop = if rn.kind == kind && rn.text.is_none() == is_node { "C02" } else { "C03" };
                cx.fail(
                    prop,
                    format!(
                        "{}: got {}{}@{}..{} but the tree dictates {}{}@{}..{}",
                        what, if is_node { "N" } else { "T" }, kind, s, en,
                        if rn.text.is_none() { "N" } else { "T" }, rn.kind, rn.start, rn.end
                    ),
                );
            }
            match self.red.trees[t].pos.get(&id) {
                Some(prev) if *prev != x => cx.fail("C03", format!("{}: handle e{} denotes two positions", what, id)),
                Some(_) => {}
                None => {
                    if self.red.trees[t].pos.values().any(|v| *v == x) {
                        cx.fail("C03", format!("{}: two unequal handles (new e{}) for one position", what, id));
                    }
                    self.red.trees[t].pos.insert(id, x);
                }
            }
        }
        format!("e{}:{}{}@{}..{}", id, if is_node { "N" } else { "T" }, kind, s, en)
    }

    pub fn red_step(&mut self, ws: &[&str], cx: &mut Ctx<'_>) -> Option<String> {
        let ans = match ws {
            ["api", m] => {
                self.red.surface = match *m {
                    "resolved" => 1,
                    "elem" => 2,
                    "elemref" => 3,
                    "relem" => 4,
                    "relemref" => 5,
                    _ => 0,
                };
                self.red.resolved = matches!(self.red.surface, 1 | 4 | 5);
                cx.count(&format!("api.{}", m));
                "ok".into()
            }
            ["red", gref] => match self.elem_at(gref) {
                Some((GEl::N(g), slot, rt)) => {
                    let Some(cache) = self.caches.get(slot).and_then(|c| c.as_ref()) else { return Some("bad-op".into()) };
                    let snap = snapshot(cache.interner());
                    let root: ResolvedNode<K> = SyntaxNode::new_root_with_resolver(g, snap.clone());
                    let t = self.red.trees.len();
                    let arena = rt.as_ref().map(Arena::build);
                    self.red.trees.push(RTree { root: root.clone(), slot, arena, pos: HashMap::new(), snap });
                    cx.count("op.red");
                    let e: El = NodeOrToken::Node(root.syntax().clone());
                    self.show_el(t, &e, Some(0), cx, "new_root")
                }
                _ => "bad-op".into(),
            },
            ["nav", eref, rest @ ..] => {
                let Some(id) = eref.strip_prefix('e').and_then(|s| s.parse::<usize>().ok()) else { return Some("bad-op".into()) };
                let Some((t, e)) = self.red.elems.get(id).cloned() else { return Some("bad-op".into()) };
                let resolved = self.red.resolved;
                let surf = self.red.surface;
                cx.count(&format!("nav.{}", rest.first().unwrap_or(&"?")));
                let what = format!("{} from e{}", rest.join(" "), id);
                let res: Result<Nav, String> = catch(|| match (&e, rest) {
                    (_, ["root"]) => match &e {
                        NodeOrToken::Node(n) => Nav::Opt(Some(if resolved { n.resolved().root().to_el() } else { n.root().to_el() })),
                        NodeOrToken::Token(tk) => Nav::Opt(Some(tk.parent().root().to_el())),
                    },
                    (_, ["range"]) => Nav::NA,
                    (_, ws)
                        if surf >= 2
                            && matches!(ws, ["parent"] | ["ancestors"] | ["first_token"] | ["last_token"] | ["next_sibling_or_token"] | ["prev_sibling_or_token"]) =>
                    {
                        match surf {
                            2 => elem_ops!(&e, *ws),
                            3 => {
                                let er: SyntaxElementRef<'_, K> = (&e).into();
                                elem_ops!(er, *ws)
                            }
                            4 => {
                                let re = resolved_elem(&e);
                                elem_ops!(&re, *ws)
                            }
                            _ => {
                                let re = resolved_elem(&e);
                                let rr: ResolvedElementRef<'_, K> = (&re).into();
                                elem_ops!(rr, *ws)
                            }
                        }
                    }
                    (NodeOrToken::Node(n), ws) => {
                        if resolved {
                            node_ops!(n.resolved(), *ws)
                        } else {
                            node_ops!(n, *ws)
                        }
                    }
                    (NodeOrToken::Token(tk), ["first_token"]) | (NodeOrToken::Token(tk), ["last_token"]) => {
                        // element-level forwarders: a token is its own first and last token
                        let er: SyntaxElementRef<'_, K> = NodeOrToken::Token(tk);
                        if rest[0] == "first_token" {
                            Nav::Opt(er.first_token().map(|x| x.to_el()))
                        } else {
                            Nav::Opt(er.last_token().map(|x| x.to_el()))
                        }
                    }
                    (NodeOrToken::Token(tk), ws) => {
                        if resolved {
                            token_ops!(tk.resolved(), *ws)
                        } else {
                            token_ops!(tk, *ws)
                        }
                    }
                });
                if rest == ["range"] {
                    let (s, en) = range_of(&e);
                    return Some(format!("{}..{}", s, en));
                }
                // reference
                let x = self.red.trees[t].pos.get(&id).cloned();
                let expect = match (x, self.red.trees[t].arena.clone()) {
                    (Some(x), Some(arena)) => {
                        let is_tok = arena.is_tok(x);
                        let tok_ok = matches!(rest, ["parent"] | ["root"] | ["ancestors"] | ["next_sibling_or_token"] | ["prev_sibling_or_token"] | ["siblings_with_tokens", _] | ["next_token"] | ["prev_token"] | ["first_token"] | ["last_token"]);
                        let node_ok = !matches!(rest, ["next_token"] | ["prev_token"]);
                        if (is_tok && tok_ok) || (!is_tok && node_ok) {
                            arena.nav(x, rest)
                        } else {
                            None
                        }
                    }
                    _ => None,
                };
                match res {
                    Err(msg) => {
                        cx.fail("C03", format!("{} panicked: {}", what, msg));
                        "panic".into()
                    }
                    Ok(Nav::NA) => "n/a".into(),
                    Ok(Nav::Num(n)) => {
                        if let Some(Nav2::Num(w)) = expect {
                            if w != n {
                                cx.fail("C03", format!("{} = {} but the tree dictates {}", what, n, w));
                            }
                        }
                        n.to_string()
                    }
                    Ok(Nav::Opt(o)) => {
                        let w = match &expect {
                            Some(Nav2::Opt(w)) => Some(*w),
                            _ => None,
                        };
                        if let Some(w) = w {
                            if w.is_some() != o.is_some() {
                                cx.fail("C03", format!("{}: got {} but the tree dictates {}", what, if o.is_some() { "an element" } else { "none" }, if w.is_some() { "an element" } else { "none" }));
                            }
                        }
                        match o {
                            Some(el) => {
                                cx.nontrivial();
                                self.show_el(t, &el, w.flatten(), cx, &what)
                            }
                            None => "none".into(),
                        }
                    }
                    Ok(Nav::List(v)) => {
                        let w = match &expect {
                            Some(Nav2::List(w)) => Some(w.clone()),
                            _ => None,
                        };
                        if let Some(w) = &w {
                            if w.len() != v.len() {
                                cx.fail("C03", format!("{}: {} items but the tree dictates {}", what, v.len(), w.len()));
                            }
                        }
                        if v.len() > 1 {
                            cx.nontrivial();
                        }
                        let mut out = vec![];
                        for (i, el) in v.iter().enumerate() {
                            let wi = w.as_ref().and_then(|w| w.get(i).cloned());
                            out.push(self.show_el(t, el, wi, cx, &what));
                        }
                        if out.is_empty() { "-".into() } else { out.join(" ") }
                    }
                    Ok(Nav::Walk(v)) => {
                        let w = match &expect {
                            Some(Nav2::Walk(w)) => Some(w.clone()),
                            _ => None,
                        };
                        if let Some(w) = &w {
                            if w.len() != v.len() || w.iter().zip(&v).any(|(a, b)| a.0 != b.0) {
                                cx.fail("C03", format!("{}: enter/leave events differ from the tree's preorder ({} vs {} events)", what, v.len(), w.len()));
                            }
                        }
                        cx.nontrivial();
                        let mut out = vec![];
                        for (i, (enter, el)) in v.iter().enumerate() {
                            let wi = w.as_ref().and_then(|w| w.get(i).map(|x| x.1));
                            out.push(format!("{}{}", if *enter { "+" } else { "-" }, self.show_el(t, el, wi, cx, &what)));
                        }
                        out.join(" ")
                    }
                }
            }
            ["chback", eref, kind, nfront] => {
                // the child iterators are forward iterators in the crate as it is; should they ever offer `next_back`, front and back
                // reads of ONE iterator must tile the children: `nfront` items from the front, then everything from the back, must be the
                // forward sequence (checked on the implementation only, on two FRESH red trees over the node's green tree -- an element
                // that exists already is handed out as it is, whatever offset the iterator computed; the model answers `ok`)
                let Some(id) = eref.strip_prefix('e').and_then(|s| s.parse::<usize>().ok()) else { return Some("bad-op".into()) };
                let Some((_t, e)) = self.red.elems.get(id).cloned() else { return Some("bad-op".into()) };
                let NodeOrToken::Node(n) = e else { return Some("ok".into()) };
                let nfront: usize = nfront.parse().unwrap_or(0);
                cx.count("op.chback");
                let r = catch(|| {
                    use crate::util::backprobe::*;
                    let fwd: Vec<(bool, u32, u32)>;
                    let mixed: Option<Vec<(bool, u32, u32)>>;
                    if *kind == "nodes" {
                        let key = |x: &SyntaxNode<K>| (true, u32::from(x.text_range().start()), u32::from(x.text_range().end()));
                        let fresh_a: SyntaxNode<K> = SyntaxNode::new_root(n.green().clone());
                        let fresh_b: SyntaxNode<K> = SyntaxNode::new_root(n.green().clone());
                        fwd = fresh_a.children().map(key).collect();
                        let mut p = Probe(fresh_b.children());
                        let mut front = vec![];
                        for _ in 0..nfront {
                            if let Some(x) = p.0.next() { front.push(key(x)); }
                        }
                        let mut back = vec![];
                        let mut avail = true;
                        loop {
                            match (&mut p).probe_back() {
                                None => { avail = false; break; }
                                Some(None) => break,
                                Some(Some(x)) => back.push(key(x)),
                            }
                            if back.len() > fwd.len() + 2 { break; }
                        }
                        back.reverse();
                        front.extend(back);
                        mixed = if avail { Some(front) } else { None };
                    } else {
                        let key = |x: SyntaxElementRef<'_, K>| (x.as_node().is_some(), u32::from(x.text_range().start()), u32::from(x.text_range().end()));
                        let fresh_a: SyntaxNode<K> = SyntaxNode::new_root(n.green().clone());
                        let fresh_b: SyntaxNode<K> = SyntaxNode::new_root(n.green().clone());
                        fwd = fresh_a.children_with_tokens().map(key).collect();
                        let mut p = Probe(fresh_b.children_with_tokens());
                        let mut front = vec![];
                        for _ in 0..nfront {
                            if let Some(x) = p.0.next() { front.push(key(x)); }
                        }
                        let mut back = vec![];
                        let mut avail = true;
                        loop {
                            match (&mut p).probe_back() {
                                None => { avail = false; break; }
                                Some(None) => break,
                                Some(Some(x)) => back.push(key(x)),
                            }
                            if back.len() > fwd.len() + 2 { break; }
                        }
                        back.reverse();
                        front.extend(back);
                        mixed = if avail { Some(front) } else { None };
                    }
                    // `nth(n)` and then the rest of ONE iterator over a third fresh tree: the forward sequence from `n` on (an iterator that
                    // loses track of its offset while skipping creates the following children at the wrong place -- visible only where
                    // they do not exist yet)
                    let fresh_c: SyntaxNode<K> = SyntaxNode::new_root(n.green().clone());
                    let skipped: Vec<(bool, u32, u32)> = if *kind == "nodes" {
                        let mut it = fresh_c.children();
                        let mut v: Vec<(bool, u32, u32)> = it.nth(nfront).into_iter().map(|x| (true, u32::from(x.text_range().start()), u32::from(x.text_range().end()))).collect();
                        v.extend(it.map(|x| (true, u32::from(x.text_range().start()), u32::from(x.text_range().end()))));
                        v
                    } else {
                        let mut it = fresh_c.children_with_tokens();
                        let k2 = |x: SyntaxElementRef<'_, K>| (x.as_node().is_some(), u32::from(x.text_range().start()), u32::from(x.text_range().end()));
                        let mut v: Vec<(bool, u32, u32)> = it.nth(nfront).into_iter().map(k2).collect();
                        v.extend(it.map(k2));
                        v
                    };
                    let want: Vec<(bool, u32, u32)> = fwd.iter().skip(nfront).cloned().collect();
                    if skipped != want {
                        panic!("nth({}) and then the rest of one fresh {} iterator: {:?}, forwards from there: {:?}", nfront, kind, skipped, want);
                    }
                    (fwd, mixed)
                });
                match r {
                    Ok((fwd, Some(mixed))) => {
                        if fwd != mixed {
                            cx.fail("C02", format!("e{}: {} children read {} from the front and the rest from the back of one iterator: {:?}, forwards: {:?}", id, kind, nfront, mixed, fwd));
                        }
                        "ok".into()
                    }
                    Ok((_, None)) => "ok".into(),
                    Err(m) => {
                        cx.fail("C03", format!("e{}: front/back reads of the {} iterator panicked: {}", id, kind, m));
                        "ok".into()
                    }
                }
            }
            ["kindstamp"] => {
                // C08: the Send / Sync impls of the handles say nothing about the kind type `S`; that is sound only as long as the tree
                // never *keeps* a value of `S`.  A kind type that stamps every value with the thread that made it (`from_raw`) shows
                // whether `kind()` on one thread can hand out a value made on another.
                cx.count("op.kindstamp");
                let r = catch(|| crate::util::backprobe::kind_stamp_probe());
                match r {
                    Ok(None) => "ok".into(),
                    Ok(Some(m)) => {
                        cx.fail("C08", m);
                        "ok".into()
                    }
                    Err(m) => {
                        cx.fail("C08", format!("kind stamp probe panicked: {}", m));
                        "ok".into()
                    }
                }
            }
            ["chiter", eref, kind, ops @ ..] => {
                let Some(id) = eref.strip_prefix('e').and_then(|s| s.parse::<usize>().ok()) else { return Some("bad-op".into()) };
                let Some((t, e)) = self.red.elems.get(id).cloned() else { return Some("bad-op".into()) };
                let NodeOrToken::Node(n) = e else { return Some("n/a".into()) };
                cx.count("op.chiter");
                let nodes = *kind == "nodes";
                // what each size report says, and how many items are actually left at that moment
                let mut out: Vec<String> = vec![];
                let mut items: Vec<El> = vec![];
                let r = catch(|| {
                    let mut out: Vec<(String, Option<El>, Option<(usize, usize)>)> = vec![];
                    if nodes {
                        let mut it = n.children();
                        for op in ops {
                            match *op {
                                "next" => out.push(("next".into(), it.next().map(|x| x.to_el()), None)),
                                op if op.starts_with("nth") => {
                                    let k: usize = op[3..].parse().unwrap_or(0);
                                    out.push((op.to_string(), it.nth(k).map(|x| x.to_el()), None))
                                }
                                "len" => out.push((it.len().to_string(), None, Some((it.len(), it.clone().map(|_| 1).sum())))),
                                "size_hint" => {
                                    let (lo, hi) = it.size_hint();
                                    out.push((format!("{},{}", lo, hi.map(|h| h.to_string()).unwrap_or("none".into())), None, Some((lo, it.clone().map(|_| 1).sum()))));
                                    if hi != Some(lo) {
                                        out.push(("inexact".into(), None, Some((usize::MAX, 0))));
                                    }
                                }
                                "count" => {
                                    out.push((it.clone().count().to_string(), None, Some((it.clone().count(), it.clone().map(|_| 1).sum()))));
                                    break;
                                }
                                // consuming adaptors a caller may reach for: whatever they are built on must agree with `next`
                                "last" => {
                                    out.push(("last".into(), it.clone().last().map(|x| x.to_el()), None));
                                    break;
                                }
                                "fold" => {
                                    let mut v = vec![];
                                    it.clone().for_each(|x| v.push(x.to_el()));
                                    for el in v {
                                        out.push(("next".into(), Some(el), None));
                                    }
                                    out.push(("next".into(), None, None));
                                    break;
                                }
                                _ => out.push(("bad-op".into(), None, None)),
                            }
                        }
                    } else {
                        let mut it = n.children_with_tokens();
                        for op in ops {
                            match *op {
                                "next" => out.push(("next".into(), it.next().map(|x| x.to_el()), None)),
                                op if op.starts_with("nth") => {
                                    let k: usize = op[3..].parse().unwrap_or(0);
                                    out.push((op.to_string(), it.nth(k).map(|x| x.to_el()), None))
                                }
                                "len" => out.push((it.len().to_string(), None, Some((it.len(), it.clone().map(|_| 1).sum())))),
                                "size_hint" => {
                                    let (lo, hi) = it.size_hint();
                                    out.push((format!("{},{}", lo, hi.map(|h| h.to_string()).unwrap_or("none".into())), None, Some((lo, it.clone().map(|_| 1).sum()))));
                                    if hi != Some(lo) {
                                        out.push(("inexact".into(), None, Some((usize::MAX, 0))));
                                    }
                                }
                                "count" => {
                                    out.push((it.clone().count().to_string(), None, Some((it.clone().count(), it.clone().map(|_| 1).sum()))));
                                    break;
                                }
                                // consuming adaptors a caller may reach for: whatever they are built on must agree with `next`
                                "last" => {
                                    out.push(("last".into(), it.clone().last().map(|x| x.to_el()), None));
                                    break;
                                }
                                "fold" => {
                                    let mut v = vec![];
                                    it.clone().for_each(|x| v.push(x.to_el()));
                                    for el in v {
                                        out.push(("next".into(), Some(el), None));
                                    }
                                    out.push(("next".into(), None, None));
                                    break;
                                }
                                _ => out.push(("bad-op".into(), None, None)),
                            }
                        }
                    }
                    out
                });
                match r {
                    Err(m) => {
                        cx.fail("C03", format!("child iterator panicked: {}", m));
                        "panic".into()
                    }
                    Ok(v) => {
                        let x = self.red.trees[t].pos.get(&id).cloned();
                        let kids: Option<Vec<usize>> = match (x, self.red.trees[t].arena.as_ref()) {
                            (Some(x), Some(a)) => Some(a.kids(x, !nodes)),
                            _ => None,
                        };
                        let mut consumed = 0usize;
                        for (s, el, size) in v {
                            if s == "next" || s.starts_with("nth") {
                                // `nth(k)` skips k items and yields the next one
                                let skip: usize = if s == "next" { 0 } else { s[3..].parse().unwrap_or(0) };
                                match el {
                                    Some(el) => {
                                        let wi = kids.as_ref().and_then(|k| k.get(consumed + skip).cloned());
                                        if kids.is_some() && wi.is_none() {
                                            cx.fail("C03", format!("child iterator of e{} yields more items than the node has", id));
                                        }
                                        out.push(self.show_el(t, &el, wi, cx, "child iterator"));
                                        items.push(el);
                                        consumed += skip + 1;
                                    }
                                    None => {
                                        if let Some(k) = &kids {
                                            if consumed + skip < k.len() {
                                                cx.fail("C03", format!("child iterator of e{} ended after {} of {} items", id, consumed + skip, k.len()));
                                            }
                                            consumed = k.len();
                                        }
                                        out.push("none".into())
                                    }
                                }
                            } else if s == "last" {
                                let want = kids.as_ref().map(|k| if consumed < k.len() { k.last().cloned() } else { None });
                                match el {
                                    Some(el) => {
                                        let wi = want.clone().flatten();
                                        if want.is_some() && wi.is_none() {
                                            cx.fail("C03", format!("last() of an exhausted child iterator of e{} yields an item", id));
                                        }
                                        out.push(self.show_el(t, &el, wi, cx, "child iterator last()"));
                                        items.push(el);
                                    }
                                    None => {
                                        if let Some(Some(_)) = want {
                                            cx.fail("C03", format!("last() of a child iterator of e{} with items left yields none", id));
                                        }
                                        out.push("none".into())
                                    }
                                }
                            } else {
                                if let Some((reported, actual)) = size {
                                    cx.nontrivial();
                                    if reported != actual {
                                        cx.fail("C03", format!("{} child iterator reports size {} but yields {} more items", if nodes { "node" } else { "element" }, reported, actual));
                                    }
                                }
                                out.push(s);
                            }
                        }
                        out.join(" | ")
                    }
                }
            }
            _ => return self.red_step2(ws, cx),
        };
        Some(ans)
    }
}


impl BuilderArea {
    /// queries, replacement, formatting, token text
    pub fn red_step2(&mut self, ws: &[&str], cx: &mut Ctx<'_>) -> Option<String> {
        let get = |s: &Self, eref: &str| -> Option<(usize, usize, El)> {
            let id = eref.strip_prefix('e')?.parse::<usize>().ok()?;
            let (t, e) = s.red.elems.get(id)?.clone();
            Some((id, t, e))
        };
        let ans = match ws {
            ["tao", eref, off] => {
                let Some((id, t, e)) = get(self, eref) else { return Some("bad-op".into()) };
                let NodeOrToken::Node(n) = e else { return Some("n/a".into()) };
                let off: usize = off.parse().unwrap_or(0);
                let resolved = self.red.resolved;
                cx.count("op.tao");
                let r = catch(|| {
                    if resolved {
                        n.resolved().token_at_offset(TextSize::from(off as u32)).map(|t| t.syntax().clone())
                    } else {
                        n.token_at_offset(TextSize::from(off as u32))
                    }
                });
                let x = self.red.trees[t].pos.get(&id).cloned();
                let arena = self.red.trees[t].arena.clone();
                let expect: Option<Vec<usize>> = match (x, &arena) {
                    (Some(x), Some(a)) if a.nodes[x].start <= off && off <= a.nodes[x].end => Some(a.tokens_at(x, off)),
                    _ => None,
                };
                match r {
                    Err(m) => {
                        if expect.is_some() {
                            cx.fail("C13", format!("token_at_offset({}) on e{} panicked inside its precondition: {}", off, id, m));
                        }
                        "panic".into()
                    }
                    Ok(tao) => {
                        // the helper's own iterator / biased accessors
                        let it: Vec<SyntaxToken<K>> = tao.clone().collect();
                        let (lo, hi) = tao.size_hint();
                        if hi != Some(lo) || lo != it.len() {
                            cx.fail("C13", format!("TokenAtOffset size_hint {:?} but yields {}", (lo, hi), it.len()));
                        }
                        if tao.clone().left_biased() != it.first().cloned() || tao.clone().right_biased() != it.last().cloned() {
                            cx.fail("C13", "left_biased/right_biased disagree with the iterator".into());
                        }
                        if let Some(w) = &expect {
                            cx.nontrivial();
                            if w.len() != it.len() {
                                cx.fail("C13", format!("token_at_offset({}) on e{} gives {} tokens, the tree has {} non-empty tokens touching the offset", off, id, it.len(), w.len()));
                            }
                        }
                        let what = format!("token_at_offset({}) on e{}", off, id);
                        match tao {
                            TokenAtOffset::None => "none".into(),
                            TokenAtOffset::Single(a) => {
                                let wa = expect.as_ref().and_then(|w| w.first().cloned());
                                format!("single {}", self.show_el13(t, &NodeOrToken::Token(a), wa, cx, &what))
                            }
                            TokenAtOffset::Between(a, b) => {
                                let wa = expect.as_ref().and_then(|w| w.first().cloned());
                                let wb = expect.as_ref().and_then(|w| w.get(1).cloned());
                                let sa = self.show_el13(t, &NodeOrToken::Token(a), wa, cx, &what);
                                let sb = self.show_el13(t, &NodeOrToken::Token(b), wb, cx, &what);
                                format!("between {} {}", sa, sb)
                            }
                        }
                    }
                }
            }
            ["taoiter", eref, off, ops @ ..] => {
                // the result of `token_at_offset` used as the iterator it is: whatever adaptor a caller reaches for must
                // agree with plain `next` stepping
                let Some((id, t, e)) = get(self, eref) else { return Some("bad-op".into()) };
                let NodeOrToken::Node(n) = e else { return Some("n/a".into()) };
                let off: usize = off.parse().unwrap_or(0);
                let resolved = self.red.resolved;
                cx.count("op.taoiter");
                let r = catch(|| {
                    let mut it: TokenAtOffset<SyntaxToken<K>> = if resolved {
                        n.resolved().token_at_offset(TextSize::from(off as u32)).map(|t| t.syntax().clone())
                    } else {
                        n.token_at_offset(TextSize::from(off as u32))
                    };
                    // reference: the items plain stepping yields
                    let mut rem: Vec<SyntaxToken<K>> = vec![];
                    {
                        let mut c = it.clone();
                        while let Some(x) = c.next() {
                            rem.push(x);
                            if rem.len() > 4 {
                                break;
                            }
                        }
                    }
                    let mut out: Vec<(Option<Option<SyntaxToken<K>>>, String)> = vec![];
                    let mut bad: Vec<String> = vec![];
                    for op in ops {
                        match *op {
                            "next" => {
                                let g = it.next();
                                let w = if rem.is_empty() { None } else { Some(rem.remove(0)) };
                                if g != w {
                                    bad.push("next disagrees with the stepping of a clone".into());
                                }
                                out.push((Some(g), String::new()));
                            }
                            op if op.starts_with("nth") => {
                                let k: usize = op[3..].parse().unwrap_or(0);
                                let g = it.nth(k);
                                let w = if k < rem.len() { let x = rem[k].clone(); rem.drain(..=k); Some(x) } else { rem.clear(); None };
                                if g != w {
                                    bad.push(format!("nth({}) is not the item {} further `next` calls reach", k, k + 1));
                                }
                                out.push((Some(g), String::new()));
                            }
                            "len" => {
                                let l = it.len();
                                if l != rem.len() || it.size_hint() != (l, Some(l)) {
                                    bad.push(format!("len {} / size_hint {:?} with {} items left", l, it.size_hint(), rem.len()));
                                }
                                out.push((None, l.to_string()));
                            }
                            "last" => {
                                let g = it.clone().last();
                                if g != rem.last().cloned() {
                                    bad.push("last() is not the last item stepping yields".into());
                                }
                                out.push((Some(g), String::new()));
                                break;
                            }
                            "count" => {
                                let c = it.clone().count();
                                if c != rem.len() {
                                    bad.push(format!("count() = {} with {} items left", c, rem.len()));
                                }
                                out.push((None, c.to_string()));
                                break;
                            }
                            "left" => {
                                let g = it.clone().left_biased();
                                if g != rem.first().cloned() {
                                    bad.push("left_biased is not the first item".into());
                                }
                                out.push((Some(g), String::new()));
                                break;
                            }
                            "right" => {
                                let g = it.clone().right_biased();
                                if g != rem.last().cloned() {
                                    bad.push("right_biased is not the last item".into());
                                }
                                out.push((Some(g), String::new()));
                                break;
                            }
                            _ => out.push((None, "bad-op".into())),
                        }
                    }
                    (out, bad)
                });
                match r {
                    Err(_) => "panic".into(),
                    Ok((out, bad)) => {
                        for b in bad {
                            cx.fail("C13", format!("token_at_offset({}) on e{} as an iterator: {}", off, id, b));
                        }
                        cx.nontrivial();
                        let mut ss = vec![];
                        for (el, s) in out {
                            match el {
                                Some(Some(tk)) => ss.push(self.show_el(t, &NodeOrToken::Token(tk), None, cx, "token_at_offset iterator")),
                                Some(None) => ss.push("none".into()),
                                None => ss.push(s),
                            }
                        }
                        ss.join(" | ")
                    }
                }
            }
            ["cover", eref, a, b] => {
                let Some((id, t, e)) = get(self, eref) else { return Some("bad-op".into()) };
                let NodeOrToken::Node(n) = e else { return Some("n/a".into()) };
                let (a, b): (usize, usize) = (a.parse().unwrap_or(0), b.parse().unwrap_or(0));
                if a > b {
                    return Some("bad-op".into());
                }
                let resolved = self.red.resolved;
                cx.count("op.cover");
                let rg = TextRange::new(TextSize::from(a as u32), TextSize::from(b as u32));
                let r = catch(|| if resolved { n.resolved().covering_element(rg).to_el() } else { n.covering_element(rg).to_el() });
                let x = self.red.trees[t].pos.get(&id).cloned();
                let arena = self.red.trees[t].arena.clone();
                let expect = match (x, &arena) {
                    (Some(x), Some(ar)) if ar.nodes[x].start <= a && b <= ar.nodes[x].end => Some(ar.covering(x, a, b)),
                    _ => None,
                };
                let what = format!("covering_element({}..{}) on e{}", a, b, id);
                match r {
                    Err(m) => {
                        if expect.is_some() {
                            cx.fail("C13", format!("{} panicked inside its precondition: {}", what, m));
                        }
                        "panic".into()
                    }
                    Ok(el) => {
                        if expect.is_some() {
                            cx.nontrivial();
                        }
                        self.show_el13(t, &el, expect, cx, &what)
                    }
                }
            }
            ["replace", eref, gref] => {
                let Some((id, t, e)) = get(self, eref) else { return Some("bad-op".into()) };
                let Some((new, _, new_rt)) = self.elem_at(gref) else { return Some("bad-op".into()) };
                let slot = self.red.trees[t].slot;
                cx.count("op.replace");
                let before = dump_green(self.red.trees[t].root.green(), &self.red.trees[t].snap);
                let r = catch(|| match (&e, &new) {
                    (NodeOrToken::Node(n), GEl::N(g)) => Some(n.replace_with(g.clone())),
                    (NodeOrToken::Token(tk), GEl::T(g)) => Some(tk.replace_with(g.clone())),
                    _ => None,
                });
                let kinds_match = match (&e, &new) {
                    (NodeOrToken::Node(n), GEl::N(g)) => n.syntax_kind() == g.kind(),
                    (NodeOrToken::Token(tk), GEl::T(g)) => tk.syntax_kind() == g.kind(),
                    _ => false,
                };
                match r {
                    Ok(None) => "panic".into(), // node/token mismatch cannot be expressed in the API
                    Err(m) => {
                        if kinds_match {
                            cx.fail("C14", format!("replace_with of the same kind panicked: {}", m));
                        }
                        "panic".into()
                    }
                    Ok(Some(g)) => {
                        let Some(cache) = self.caches.get(slot).and_then(|c| c.as_ref()) else { return Some("bad-op".into()) };
                        let d = dump_green(&g, cache.interner());
                        if !kinds_match {
                            cx.fail("C14", "replace_with accepted a replacement of another kind".into());
                        }
                        let x = self.red.trees[t].pos.get(&id).cloned();
                        let mut rt = None;
                        if let (Some(x), Some(ar), Some(nrt)) = (x, self.red.trees[t].arena.as_ref(), new_rt.as_ref()) {
                            cx.nontrivial();
                            let want = ar.subst(0, x, nrt);
                            if want.dump() != d {
                                cx.fail("C14", format!("replace_with gives {} but substituting in the tree gives {}", d, want.dump()));
                            }
                            let mut wt = String::new();
                            want.text(&mut wt);
                            if u32::from(g.text_len()) as usize != wt.len() {
                                cx.fail("C14", format!("replaced tree reports length {:?}, its text has {} bytes", g.text_len(), wt.len()));
                            }
                            // identity replacement gives an equal tree
                            if ar.to_tree(x) == *nrt && &g != self.red.trees[t].root.green() {
                                cx.fail("C14", "replacing an element by an equal one gives an unequal tree".into());
                            }
                            rt = Some(want);
                        }
                        // the original is unchanged
                        let after = dump_green(self.red.trees[t].root.green(), &self.red.trees[t].snap);
                        if before != after {
                            cx.fail("C14", "replace_with changed the original tree".into());
                        }
                        let n = self.greens.len();
                        self.greens.push((g, slot, d.clone()));
                        self.reftrees.push(rt);
                        format!("g{} {}", n, d)
                    }
                }
            }
            ["resolve", eref] => {
                let Some((id, t, e)) = get(self, eref) else { return Some("bad-op".into()) };
                cx.count("op.resolve_text");
                let snap = self.red.trees[t].snap.clone();
                let r = catch(|| match &e {
                    NodeOrToken::Node(n) => {
                        let a = n.resolve_text(&snap).to_string();
                        let b = n.resolved().text().to_string();
                        (a, b)
                    }
                    NodeOrToken::Token(tk) => (tk.resolve_text(&snap).to_string(), tk.resolved().text().to_string()),
                });
                match r {
                    Err(m) => {
                        let prop = if matches!(e, NodeOrToken::Token(_)) { "C11" } else { "C02" };
                        cx.fail(prop, format!("resolving the text of e{} panicked: {}", id, m));
                        "panic".into()
                    }
                    Ok((a, b)) => {
                        if a != b {
                            cx.fail("C02", format!("external and attached resolver give different texts for e{}", id));
                        }
                        if let (Some(x), Some(ar)) = (self.red.trees[t].pos.get(&id), self.red.trees[t].arena.as_ref()) {
                            let mut whole = String::new();
                            ar.text_of(0, &mut whole);
                            let (s, en) = range_of(&e);
                            let mut own = String::new();
                            ar.text_of(*x, &mut own);
                            cx.nontrivial();
                            if whole.get(s..en) != Some(a.as_str()) {
                                cx.fail("C02", format!("text of e{} is not the slice {}..{} of the whole text", id, s, en));
                            }
                            if matches!(e, NodeOrToken::Token(_)) && a.len() != en - s {
                                cx.fail("C11", format!("token e{} spans {} bytes but its text {} has {}", id, en - s, hex(&a), a.len()));
                            }
                            if own != a {
                                let prop = if matches!(e, NodeOrToken::Token(_)) { "C11" } else { "C02" };
                                cx.fail(prop, format!("text of e{} is {} but it was built from {}", id, hex(&a), hex(&own)));
                            }
                        }
                        hex(&a)
                    }
                }
            }
            ["static_text", eref] | ["text_key", eref] => {
                let Some((_, _, e)) = get(self, eref) else { return Some("bad-op".into()) };
                match e {
                    NodeOrToken::Token(tk) => {
                        if ws[0] == "static_text" {
                            tk.static_text().map(hex).unwrap_or_else(|| "none".into())
                        } else {
                            use cstree::interning::InternKey;
                            tk.text_key().map(|k| k.into_u32().to_string()).unwrap_or_else(|| "none".into())
                        }
                    }
                    _ => "n/a".into(),
                }
            }
            _ => return self.red_step3(ws, cx),
        };
        Some(ans)
    }

    /// like `show_el`, but position/range mismatches are attributed to C13
    fn show_el13(&mut self, t: usize, e: &El, expect: Option<usize>, cx: &mut Ctx<'_>, what: &str) -> String {
        let (s, en) = range_of(e);
        if let (Some(x), Some(arena)) = (expect, self.red.trees[t].arena.as_ref()) {
            let rn = &arena.nodes[x];
            if rn.kind != e.syntax_kind().0 || rn.start != s || rn.end != en || rn.text.is_some() == matches!(e, NodeOrToken::Node(_)) {
                cx.fail("C13", format!("{}: got {}@{}..{} but the tree dictates {}@{}..{}", what, e.syntax_kind().0, s, en, rn.kind, rn.start, rn.end));
                return self.show_el(t, e, None, cx, what);
            }
        }
        self.show_el(t, e, expect, cx, what)
    }
}

/// parse one debug line `K5@0..3` / `K10@0..30 "text"`
fn parse_dbg(line: &str) -> Option<(u32, usize, usize, Option<String>)> {
    let line = line.strip_prefix('K')?;
    let at = line.find('@')?;
    let kind: u32 = line[..at].parse().ok()?;
    let rest = &line[at + 1..];
    let (range, text) = match rest.find(' ') {
        Some(sp) => (&rest[..sp], Some(&rest[sp + 1..])),
        None => (rest, None),
    };
    let dd = range.find("..")?;
    let s: usize = range[..dd].parse().ok()?;
    let e: usize = range[dd + 2..].parse().ok()?;
    let text = match text {
        Some(t) => Some(unescape_debug(t)?),
        None => None,
    };
    Some((kind, s, e, text))
}

fn show_dbg(depth: usize, p: &(u32, usize, usize, Option<String>)) -> String {
    format!("{}:{}@{}..{}{}", depth, p.0, p.1, p.2, p.3.as_ref().map(|t| format!(":{}", hex(t))).unwrap_or_default())
}

impl BuilderArea {
    /// C19 oracle for one debug line against the reference element
    fn check_dbg(&self, t: usize, x: usize, p: &(u32, usize, usize, Option<String>), cx: &mut Ctx<'_>) {
        let Some(ar) = self.red.trees[t].arena.as_ref() else { return };
        let rn = &ar.nodes[x];
        if rn.kind != p.0 || rn.start != p.1 || rn.end != p.2 {
            cx.fail("C19", format!("debug line says {}@{}..{} for element {}@{}..{}", p.0, p.1, p.2, rn.kind, rn.start, rn.end));
        }
        match (&rn.text, &p.3) {
            (None, None) => {}
            (Some(full), Some(shown)) => {
                if full.len() < 25 {
                    if shown != full {
                        cx.fail("C19", format!("short token text {} shown as {}", hex(full), hex(shown)));
                    }
                } else {
                    // abbreviated: a prefix of the text, cut at a char boundary, followed by " ..."
                    match shown.strip_suffix(" ...") {
                        Some(prefix) if full.starts_with(prefix) && prefix.len() >= 21 && prefix.len() < 25 => {}
                        _ => cx.fail("C19", format!("long token text {} abbreviated as {}", hex(full), hex(shown))),
                    }
                }
            }
            _ => cx.fail("C19", "debug line has text for a node / no text for a token".into()),
        }
    }

    pub fn red_step3(&mut self, ws: &[&str], cx: &mut Ctx<'_>) -> Option<String> {
        let get = |s: &Self, eref: &str| -> Option<(usize, usize, El)> {
            let id = eref.strip_prefix('e')?.parse::<usize>().ok()?;
            let (t, e) = s.red.elems.get(id)?.clone();
            Some((id, t, e))
        };
        let ans = match ws {
            ["deepfmt", d] => {
                // C19, totality on deep trees: a chain of `d` nested nodes over one token is owned (built, and later dropped -- the
                // crate's tear-down is recursive) by a thread with a large stack and *formatted* on a thread with an ordinary 2 MiB
                // stack.  Output goes to a counting sink (the recursive debug form of a chain is quadratic in its depth).
                let d: usize = d.parse().unwrap_or(0);
                cx.count("fmt.deep");
                struct Count {
                    bytes: u64,
                    lines: u64,
                }
                impl std::fmt::Write for Count {
                    fn write_str(&mut self, s: &str) -> std::fmt::Result {
                        self.bytes += s.len() as u64;
                        self.lines += s.bytes().filter(|b| *b == b'\n').count() as u64;
                        Ok(())
                    }
                }
                let res = std::thread::Builder::new()
                    .stack_size(1 << 30)
                    .spawn(move || {
                        let mut b: cstree::build::GreenNodeBuilder<'static, 'static, K> = cstree::build::GreenNodeBuilder::new();
                        for _ in 0..d {
                            b.start_node(K(0));
                        }
                        b.token(K(10), "a");
                        for _ in 0..d {
                            b.finish_node();
                        }
                        let (g, cache) = b.finish();
                        let interner = cache.unwrap().into_interner().unwrap();
                        let root: cstree::syntax::SyntaxNode<K> = cstree::syntax::SyntaxNode::new_root(g);
                        let node_line = root.debug(&interner, false).len() as u64 + 1;
                        let tok = root.first_token().unwrap().clone();
                        let tok_line = tok.debug(&interner).len() as u64 + 1;
                        drop(tok);
                        let out = std::thread::scope(|s| {
                            std::thread::Builder::new()
                                .stack_size(2 << 20)
                                .spawn_scoped(s, || {
                                    let mut c = Count { bytes: 0, lines: 0 };
                                    let r1 = root.write_debug(&interner, &mut c, true).is_ok();
                                    let mut c2 = Count { bytes: 0, lines: 0 };
                                    let r2 = root.write_display(&interner, &mut c2).is_ok();
                                    (r1 && r2, c.lines, c.bytes, c2.bytes)
                                })
                                .unwrap()
                                .join()
                        });
                        drop(root);
                        (out, node_line, tok_line)
                    })
                    .unwrap()
                    .join();
                match res {
                    Ok((Ok((ok, lines, bytes, disp)), node_line, tok_line)) => {
                        let d64 = d as u64;
                        // level l is indented by 2 l spaces; the token sits at level d
                        let want_bytes = d64 * node_line + d64 * (d64.saturating_sub(1)) + tok_line + 2 * d64;
                        if !ok || lines != d64 + 1 || bytes != want_bytes || disp != 1 {
                            cx.fail("C19", format!("deep chain of {} nodes: recursive debug wrote {} lines / {} bytes (expected {} / {}), display wrote {} bytes (expected 1), ok={}", d, lines, bytes, d64 + 1, want_bytes, disp, ok));
                        }
                        "ok".into()
                    }
                    _ => {
                        cx.fail("C19", format!("formatting a chain of {} nested nodes panicked", d));
                        "ok".into()
                    }
                }
            }
            ["fmt", eref, what] => {
                let Some((id, t, e)) = get(self, eref) else { return Some("bad-op".into()) };
                let snap = self.red.trees[t].snap.clone();
                cx.count(&format!("fmt.{}", what));
                let x = self.red.trees[t].pos.get(&id).cloned();
                // two routes: external resolver on the plain API, attached resolver through the std traits
                let r = catch(|| {
                    let (a, b) = match (*what, &e) {
                        ("display", NodeOrToken::Node(n)) => (n.display(&snap), format!("{}", n.resolved())),
                        ("display", NodeOrToken::Token(k)) => (k.display(&snap), format!("{}", k.resolved())),
                        ("debug", NodeOrToken::Node(n)) => (n.debug(&snap, false), format!("{:?}", n.resolved())),
                        ("debug", NodeOrToken::Token(k)) => (k.debug(&snap), format!("{:?}", k.resolved())),
                        ("debug_rec", NodeOrToken::Node(n)) => (n.debug(&snap, true), format!("{:#?}", n.resolved())),
                        ("debug_rec", NodeOrToken::Token(k)) => {
                            let er: SyntaxElementRef<'_, K> = NodeOrToken::Token(k);
                            (er.debug(&snap, true), format!("{:#?}", k.resolved()))
                        }
                        _ => (String::new(), String::new()),
                    };
                    // every other way of asking for the same output: the `write_*` forms, the element enums, the std traits on
                    // the resolved element enum
                    let mut routes: Vec<(&'static str, String)> = vec![];
                    let er: SyntaxElementRef<'_, K> = (&e).into();
                    let re = resolved_elem(&e);
                    let rec = *what == "debug_rec";
                    let mut w = |name: &'static str, f: &mut dyn FnMut(&mut String) -> std::fmt::Result| {
                        let mut buf = String::new();
                        if f(&mut buf).is_err() {
                            buf.push_str("<fmt error>");
                        }
                        routes.push((name, buf));
                    };
                    if *what == "display" {
                        match &e {
                            NodeOrToken::Node(n) => w("SyntaxNode::write_display", &mut |b| n.write_display(&snap, b)),
                            NodeOrToken::Token(k) => w("SyntaxToken::write_display", &mut |b| k.write_display(&snap, b)),
                        }
                        w("SyntaxElement::write_display", &mut |b| e.write_display(&snap, b));
                        w("SyntaxElementRef::write_display", &mut |b| er.write_display(&snap, b));
                        routes.push(("SyntaxElement::display", e.display(&snap)));
                        routes.push(("SyntaxElementRef::display", er.display(&snap)));
                        routes.push(("ResolvedElement::display", re.display(&snap)));
                        routes.push(("Display for ResolvedElement", format!("{}", re)));
                    } else {
                        match &e {
                            NodeOrToken::Node(n) => w("SyntaxNode::write_debug", &mut |b| n.write_debug(&snap, b, rec)),
                            NodeOrToken::Token(k) => w("SyntaxToken::write_debug", &mut |b| k.write_debug(&snap, b)),
                        }
                        w("SyntaxElement::write_debug", &mut |b| e.write_debug(&snap, b, rec));
                        w("SyntaxElementRef::write_debug", &mut |b| er.write_debug(&snap, b, rec));
                        routes.push(("SyntaxElement::debug", e.debug(&snap, rec)));
                        routes.push(("SyntaxElementRef::debug", er.debug(&snap, rec)));
                    }
                    let differing: Vec<&'static str> = routes.iter().filter(|(_, v)| *v != a).map(|(n, _)| *n).collect();
                    (a, b, differing)
                });
                let r = r.map(|(a, b, differing)| {
                    if !differing.is_empty() {
                        cx.fail("C19", format!("{} of e{} differs between the node/token method and {}", what, id, differing.join(", ")));
                    }
                    (a, b)
                });
                match r {
                    Err(m) => {
                        cx.fail("C19", format!("formatting ({}) e{} panicked: {}", what, id, m));
                        "panic".into()
                    }
                    Ok((a, b)) => {
                        if a != b {
                            cx.fail("C19", format!("{} of e{} differs between the external-resolver and the attached-resolver route", what, id));
                        }
                        match *what {
                            "display" => {
                                if let (Some(x), Some(ar)) = (x, self.red.trees[t].arena.as_ref()) {
                                    let mut want = String::new();
                                    ar.text_of(x, &mut want);
                                    cx.nontrivial();
                                    if want != a {
                                        cx.fail("C19", format!("display of e{} is {} but its text is {}", id, hex(&a), hex(&want)));
                                    }
                                }
                                hex(&a)
                            }
                            "debug" => match parse_dbg(&a) {
                                Some(p) => {
                                    if let Some(x) = x {
                                        cx.nontrivial();
                                        self.check_dbg(t, x, &p, cx);
                                    }
                                    show_dbg(0, &p)
                                }
                                None => {
                                    cx.fail("C19", format!("debug output {} is not `KIND@RANGE` followed by the text in escaped, quoted form", hex(&a)));
                                    format!("unparsable:{}", hex(&a))
                                }
                            },
                            _ => {
                                let is_node = matches!(e, NodeOrToken::Node(_));
                                let lines: Vec<&str> = if is_node { a.split_terminator('\n').collect() } else { vec![a.as_str()] };
                                if is_node && !a.is_empty() && !a.ends_with('\n') {
                                    cx.fail("C19", "recursive debug output does not end with a newline".into());
                                }
                                let expect: Option<Vec<usize>> = match (x, self.red.trees[t].arena.as_ref()) {
                                    (Some(x), Some(ar)) => {
                                        let mut ev = vec![];
                                        ar.preorder(x, true, &mut ev);
                                        Some(ev.into_iter().filter(|e| e.0).map(|e| e.1).collect())
                                    }
                                    _ => None,
                                };
                                if let Some(w) = &expect {
                                    cx.nontrivial();
                                    if w.len() != lines.len() {
                                        cx.fail("C19", format!("recursive debug of e{} has {} lines, the sub-tree has {} elements", id, lines.len(), w.len()));
                                    }
                                }
                                let mut out = vec![];
                                for (i, l) in lines.iter().enumerate() {
                                    let trimmed = l.trim_start_matches(' ');
                                    let indent = l.len() - trimmed.len();
                                    match parse_dbg(trimmed) {
                                        Some(p) => {
                                            if let (Some(w), Some(x0)) = (&expect, x) {
                                                if let (Some(wi), Some(ar)) = (w.get(i), self.red.trees[t].arena.as_ref()) {
                                                    let want_depth = ar.nodes[*wi].depth - ar.nodes[x0].depth;
                                                    if indent != 2 * want_depth {
                                                        cx.fail("C19", format!("line {} of the recursive debug of e{} is indented by {}, its depth is {}", i, id, indent, want_depth));
                                                    }
                                                    self.check_dbg(t, *wi, &p, cx);
                                                }
                                            }
                                            out.push(show_dbg(indent / 2, &p));
                                        }
                                        None => {
                                            cx.fail("C19", format!("line {} of the recursive debug of e{} ({}) is not `KIND@RANGE` + escaped, quoted text", i, id, hex(l)));
                                            out.push(format!("unparsable:{}", hex(l)))
                                        }
                                    }
                                }
                                out.join(" ")
                            }
                        }
                    }
                }
            }
            ["text_eq", a, b] => {
                let (Some((ia, ta, ea)), Some((ib, tb, eb))) = (get(self, a), get(self, b)) else { return Some("bad-op".into()) };
                let (NodeOrToken::Token(x), NodeOrToken::Token(y)) = (&ea, &eb) else { return Some("n/a".into()) };
                cx.count("op.text_eq");
                let r1 = catch(|| x.text_eq(y));
                let r2 = catch(|| y.text_eq(x));
                let same_interner = self.red.trees[ta].slot == self.red.trees[tb].slot;
                let sa = self.red.trees[ta].snap.clone();
                let sb = self.red.trees[tb].snap.clone();
                let texts = catch(|| (x.resolve_text(&sa).to_string(), y.resolve_text(&sb).to_string()));
                if r1.is_err() || r2.is_err() {
                    cx.fail("C11", format!("text_eq(e{}, e{}) panicked", ia, ib));
                }
                if let (Ok(v1), Ok(v2)) = (&r1, &r2) {
                    if v1 != v2 {
                        cx.fail("C11", format!("text_eq is not symmetric on e{}, e{}", ia, ib));
                    }
                }
                if let (Ok(v), Ok((t1, t2)), true) = (&r1, &texts, same_interner) {
                    cx.nontrivial();
                    if *v && t1 != t2 {
                        cx.fail("C11", format!("text_eq(e{}, e{}) is true but the texts are {} / {}", ia, ib, hex(t1), hex(t2)));
                    }
                    let class_a = x.static_text().is_some();
                    let class_b = y.static_text().is_some();
                    if class_a == class_b {
                        cx.count("text_eq.same_class");
                        if t1 == t2 && !*v {
                            cx.fail("C11", format!("text_eq(e{}, e{}) is false for equal texts {} of the same class", ia, ib, hex(t1)));
                        }
                    } else {
                        cx.count("text_eq.mixed_class");
                        if t1 == t2 {
                            cx.count("text_eq.mixed_class_equal_text");
                        }
                    }
                }
                match r1 {
                    Ok(v) => v.to_string(),
                    Err(_) => "panic".into(),
                }
            }
            _ => return self.text_step(ws, cx),
        };
        Some(ans)
    }
}
