//! Generators for the red-layer properties.  The generator simulates the reference navigation to
//! know which element ids exist (ids are assigned by first appearance in the answers).
use crate::area_builder::RefTree;
use crate::gen::*;
use crate::reftree::{Arena, Nav2};
use crate::util::*;
use std::collections::HashMap;

pub struct Sim {
    pub arena: Arena,
    pub ids:   HashMap<usize, usize>, // arena id -> element id
    pub rev:   Vec<(usize, usize)>,   // (element id, arena id) in order
}

pub struct Out {
    pub lines:   Vec<String>,
    pub next_id: usize,
}

impl Sim {
    /// emits `red <gref>`; the root gets the next element id
    pub fn new(t: &RefTree, gref: &str, out: &mut Out) -> Sim {
        let arena = Arena::build(t);
        let mut s = Sim { arena, ids: HashMap::new(), rev: vec![] };
        out.lines.push(format!("red {}", gref));
        s.reg(0, out);
        s
    }
    fn reg(&mut self, x: usize, out: &mut Out) -> usize {
        if let Some(i) = self.ids.get(&x) {
            return *i;
        }
        let i = out.next_id;
        out.next_id += 1;
        self.ids.insert(x, i);
        self.rev.push((i, x));
        i
    }
    pub fn known(&self) -> Vec<usize> {
        self.rev.iter().map(|r| r.1).collect()
    }
    pub fn eid(&self, x: usize) -> usize {
        self.ids[&x]
    }
    /// emit a navigation op from arena element `x` and register the ids of its results
    pub fn nav(&mut self, x: usize, ws: &[&str], out: &mut Out) -> Nav2 {
        out.lines.push(format!("nav e{} {}", self.eid(x), ws.join(" ")));
        let is_tok = self.arena.is_tok(x);
        let tok_ok = matches!(ws, ["parent"] | ["root"] | ["ancestors"] | ["next_sibling_or_token"] | ["prev_sibling_or_token"] | ["siblings_with_tokens", _] | ["next_token"] | ["prev_token"] | ["first_token"] | ["last_token"]);
        let node_ok = !matches!(ws, ["next_token"] | ["prev_token"]);
        if (is_tok && !tok_ok) || (!is_tok && !node_ok) {
            return Nav2::Opt(None);
        }
        let r = self.arena.nav(x, ws).unwrap_or(Nav2::Opt(None));
        match &r {
            Nav2::Opt(Some(y)) => {
                self.reg(*y, out);
            }
            Nav2::List(v) => {
                for y in v {
                    self.reg(*y, out);
                }
            }
            Nav2::Walk(v) => {
                for (_, y) in v {
                    self.reg(*y, out);
                }
            }
            _ => {}
        }
        r
    }
    fn opt(&mut self, x: usize, ws: &[&str], out: &mut Out) -> Option<usize> {
        match self.nav(x, ws, out) {
            Nav2::Opt(o) => o,
            _ => None,
        }
    }
}

pub const ROUTES: [&str; 15] = [
    "iter", "backward", "hops", "indexed_fwd", "indexed_back", "nodes_fwd", "nodes_back", "nodes_iter",
    "nodes_indexed", "tokens_fwd", "tokens_back", "preorder", "queries", "iter_nth", "nodes_nth",
];

/// visit the sub-tree of `x` using only the operations of one route
pub fn route(sim: &mut Sim, x: usize, r: &str, out: &mut Out) {
    let n = sim.arena.nodes[x].children.len();
    match r {
        // children first reached by `nth` on a fresh iterator, from the back (nothing in between is looked at first)
        "iter_nth" | "nodes_nth" => {
            let elems = r == "iter_nth";
            let kids = sim.arena.kids(x, elems);
            for i in (0..kids.len()).rev() {
                out.lines.push(format!("chiter e{} {} nth{}", sim.eid(x), if elems { "elems" } else { "nodes" }, i));
                sim.reg(kids[i], out);
            }
            for k in kids {
                if !sim.arena.is_tok(k) {
                    route(sim, k, r, out);
                }
            }
        }
        "iter" => {
            if let Nav2::List(v) = sim.nav(x, &["children_with_tokens"], out) {
                for c in v {
                    if !sim.arena.is_tok(c) {
                        route(sim, c, r, out);
                    }
                }
            }
        }
        "backward" => {
            let mut c = sim.opt(x, &["last_child_or_token"], out);
            while let Some(y) = c {
                if !sim.arena.is_tok(y) {
                    route(sim, y, r, out);
                }
                c = sim.opt(y, &["prev_sibling_or_token"], out);
            }
        }
        "hops" => {
            let mut c = sim.opt(x, &["first_child_or_token"], out);
            while let Some(y) = c {
                if !sim.arena.is_tok(y) {
                    route(sim, y, r, out);
                }
                c = sim.opt(y, &["next_sibling_or_token"], out);
            }
        }
        "indexed_fwd" => {
            if n > 0 {
                let mut c = sim.opt(x, &["first_child_or_token"], out);
                let mut i = 0;
                while let Some(y) = c {
                    if !sim.arena.is_tok(y) {
                        route(sim, y, r, out);
                    }
                    let end = sim.arena.nodes[y].end;
                    c = sim.opt(x, &["next_child_or_token_after", &i.to_string(), &end.to_string()], out);
                    i += 1;
                }
            }
        }
        "indexed_back" => {
            let mut i = n;
            let mut off = sim.arena.nodes[x].end;
            while i > 0 {
                match sim.opt(x, &["prev_child_or_token_before", &i.to_string(), &off.to_string()], out) {
                    Some(y) => {
                        if !sim.arena.is_tok(y) {
                            route(sim, y, r, out);
                        }
                        off = sim.arena.nodes[y].start;
                    }
                    None => break,
                }
                i -= 1;
            }
        }
        "nodes_fwd" => {
            let mut c = sim.opt(x, &["first_child"], out);
            while let Some(y) = c {
                route(sim, y, r, out);
                c = sim.opt(y, &["next_sibling"], out);
            }
        }
        "nodes_back" => {
            let mut c = sim.opt(x, &["last_child"], out);
            while let Some(y) = c {
                route(sim, y, r, out);
                c = sim.opt(y, &["prev_sibling"], out);
            }
        }
        "nodes_iter" => {
            if let Nav2::List(v) = sim.nav(x, &["children"], out) {
                for c in v {
                    route(sim, c, r, out);
                }
            }
        }
        "nodes_indexed" => {
            // next_child_after(i, offset of child i+1) / prev_child_before(i, offset of child i)
            let kids = sim.arena.nodes[x].children.clone();
            for (i, k) in kids.iter().enumerate() {
                let end = sim.arena.nodes[*k].end;
                if let Some(y) = sim.opt(x, &["next_child_after", &i.to_string(), &end.to_string()], out) {
                    let _ = y;
                }
            }
            for (i, k) in kids.iter().enumerate().rev() {
                let start = sim.arena.nodes[*k].start;
                sim.opt(x, &["prev_child_before", &i.to_string(), &start.to_string()], out);
            }
            if let Nav2::List(v) = sim.nav(x, &["children"], out) {
                for c in v {
                    route(sim, c, r, out);
                }
            }
        }
        "tokens_fwd" => {
            let mut t = sim.opt(x, &["first_token"], out);
            while let Some(y) = t {
                t = sim.opt(y, &["next_token"], out);
            }
        }
        "tokens_back" => {
            let mut t = sim.opt(x, &["last_token"], out);
            while let Some(y) = t {
                t = sim.opt(y, &["prev_token"], out);
            }
        }
        "preorder" => {
            sim.nav(x, &["preorder_with_tokens"], out);
        }
        "queries" => {
            let (s, e) = (sim.arena.nodes[x].start, sim.arena.nodes[x].end);
            for off in s..=e {
                emit_tao(sim, x, off, out);
            }
            for a in s..=e {
                for b in a..=e {
                    emit_cover(sim, x, a, b, out);
                }
            }
        }
        _ => {}
    }
}

pub fn emit_tao(sim: &mut Sim, x: usize, off: usize, out: &mut Out) {
    out.lines.push(format!("tao e{} {}", sim.eid(x), off));
    let (s, e) = (sim.arena.nodes[x].start, sim.arena.nodes[x].end);
    if s <= off && off <= e {
        let ts = sim.arena.tokens_at(x, off);
        for t in &ts {
            sim.reg(*t, out);
        }
        // the result driven as an iterator (adaptors vs. plain stepping); mostly where two tokens meet
        const PROGS: [&str; 14] = [
            "len next len next len next", "nth0 len next len", "nth1 len next", "next nth0 next", "nth2 len next", "len last", "next last",
            "count", "next count", "left", "right", "next right", "nth0 nth0 nth0", "nth0 last",
        ];
        if ts.len() == 2 || (x + off) % 3 == 0 {
            out.lines.push(format!("taoiter e{} {} {}", sim.eid(x), off, PROGS[(x * 7 + off) % PROGS.len()]));
            if ts.len() == 2 {
                out.lines.push(format!("taoiter e{} {} {}", sim.eid(x), off, PROGS[(x * 7 + off + 1 + (off % 5)) % PROGS.len()]));
            }
        }
    }
}

pub fn emit_cover(sim: &mut Sim, x: usize, a: usize, b: usize, out: &mut Out) {
    out.lines.push(format!("cover e{} {} {}", sim.eid(x), a, b));
    let (s, e) = (sim.arena.nodes[x].start, sim.arena.nodes[x].end);
    if s <= a && b <= e {
        let c = sim.arena.covering(x, a, b);
        sim.reg(c, out);
    }
}

pub const NODE_OPS: [&[&str]; 25] = [
    &["parent"], &["root"], &["ancestors"], &["first_child"], &["first_child_or_token"], &["last_child"],
    &["last_child_or_token"], &["next_sibling"], &["next_sibling_or_token"], &["prev_sibling"],
    &["prev_sibling_or_token"], &["children"], &["children_with_tokens"], &["siblings", "next"],
    &["siblings", "prev"], &["siblings_with_tokens", "next"], &["siblings_with_tokens", "prev"], &["descendants"],
    &["descendants_with_tokens"], &["preorder"], &["preorder_with_tokens"], &["first_token"], &["last_token"],
    &["arity"], &["arity_with_tokens"],
];
pub const TOKEN_OPS: [&[&str]; 11] = [
    &["parent"], &["root"], &["ancestors"], &["next_sibling_or_token"], &["prev_sibling_or_token"],
    &["siblings_with_tokens", "next"], &["siblings_with_tokens", "prev"], &["next_token"], &["prev_token"],
    &["first_token"], &["last_token"],
];

pub fn small_red_trees(max: usize) -> Vec<RefTree> {
    let toks = vec![
        RefTree::Tok(10, "a".into()),
        RefTree::Tok(10, "".into()),
        RefTree::Tok(11, "é".into()),
        RefTree::Tok(12, "+".into()),
    ];
    small_trees(max, &toks, &[0])
}

/// the API surface a case is driven through: plain / resolved node and token API, and the four element enums
/// (`SyntaxElement`, `SyntaxElementRef`, `ResolvedElement`, `ResolvedElementRef`) for the element-level requests
pub fn api_name(i: usize) -> &'static str {
    ["plain", "resolved", "elem", "relemref", "elemref", "relem"][i % 6]
}

fn start_case(out: &mut Out, case: &mut usize, t: &RefTree, rng: &mut Rng, backend: &str) {
    out.lines.push(format!("case {}", *case));
    *case += 1;
    out.next_id = 0;
    out.lines.push(format!("cache {}", backend));
    out.lines.push("builder c0".into());
    emit_tree(t, &mut out.lines, rng);
    out.lines.push("finish".into());
}

fn random_red_tree(rng: &mut Rng, big: bool) -> RefTree {
    let mut pool = vec![];
    if big {
        let mut budget = 150;
        random_tree_b(rng, 6, 8, &mut pool, &mut budget)
    } else {
        let (d, w) = (1 + rng.below(4), 1 + rng.below(5));
        let mut budget = 40;
        random_tree_b(rng, d, w, &mut pool, &mut budget)
    }
}

/// C02 + C03: every route as the route of first visit, then a forward re-visit; every operation
/// from every element; iterator size reports; random programs on larger trees
pub fn gen_red(seed: u64, tier: &str) -> Vec<String> {
    let mut rng = Rng::new(seed ^ 0xC02);
    let mut out = Out { lines: vec![], next_id: 0 };
    header(&mut out.lines);
    let mut case = 0usize;
    // C08: does the tree keep values of the kind type? (own tree, own kind type; no case of its own needed)
    out.lines.push("case 0".into());
    out.lines.push("kindstamp".into());
    case += 1;
    let bes: Vec<&str> = backends().into_iter().filter(|b| !b.ends_with("ref")).collect();
    let max = if tier == "thorough" { 5 } else { 4 };
    let trees = small_red_trees(max);
    for (ti, t) in trees.iter().enumerate() {
        start_case(&mut out, &mut case, t, &mut rng, bes[ti % bes.len()]);
        out.lines.push(format!("api {}", api_name(ti)));
        // each route on a fresh red tree over the same green tree
        for r in ROUTES {
            let mut sim = Sim::new(t, "g0", &mut out);
            route(&mut sim, 0, r, &mut out);
            sim.nav(0, &["descendants_with_tokens"], &mut out);
            for x in sim.known() {
                out.lines.push(format!("resolve e{}", sim.eid(x)));
            }
        }
        // every operation from every element
        let mut sim = Sim::new(t, "g0", &mut out);
        sim.nav(0, &["descendants_with_tokens"], &mut out);
        for x in sim.known() {
            if sim.arena.is_tok(x) {
                for op in TOKEN_OPS {
                    sim.nav(x, op, &mut out);
                }
            } else {
                for op in NODE_OPS {
                    sim.nav(x, op, &mut out);
                }
                for kind in ["nodes", "elems"] {
                    out.lines.push(format!("chiter e{} {} len size_hint next len next size_hint count", sim.eid(x), kind));
                    // ids: the first two children of that kind
                    let kids = sim.arena.kids(x, kind == "elems");
                    for k in kids.iter().take(2) {
                        sim.reg(*k, &mut out);
                    }
                    // `nth` mixed with size reports: skip one, take one, report, run past the end
                    out.lines.push(format!("chiter e{} {} nth1 len size_hint nth0 len nth7 len count", sim.eid(x), kind));
                    for i in [1usize, 2] {
                        if let Some(k) = kids.get(i) {
                            sim.reg(*k, &mut out);
                        }
                    }
                    // consuming adaptors: from a fresh, a partly consumed and an exhausted iterator
                    for (pre, taken) in [("", 0usize), ("next ", 1), ("nth7 ", usize::MAX)] {
                        out.lines.push(format!("chiter e{} {} {}last", sim.eid(x), kind, pre));
                        let mut taken = taken;
                        if taken == 1 {
                            if let Some(k) = kids.get(0) {
                                sim.reg(*k, &mut out);
                            }
                        } else if taken == usize::MAX {
                            if let Some(k) = kids.get(7) {
                                sim.reg(*k, &mut out);
                                taken = 8;
                            }
                        }
                        if taken < kids.len() {
                            sim.reg(*kids.last().unwrap(), &mut out);
                        }
                    }
                    out.lines.push(format!("chiter e{} {} next fold", sim.eid(x), kind));
                    for nf in [0usize, 1, 2] {
                        out.lines.push(format!("chback e{} {} {}", sim.eid(x), kind, nf));
                    }
                    for k in kids.iter() {
                        sim.reg(*k, &mut out);
                    }
                }
            }
        }
    }
    // random programs on larger trees: elements are first reached by whatever the program does
    let n = if tier == "thorough" { 3000 } else { 250 };
    for i in 0..n {
        let t = if i % 25 == 3 { deep_tree(&mut rng, 60) } else { random_red_tree(&mut rng, i % 10 == 0) };
        start_case(&mut out, &mut case, &t, &mut rng, bes[i % bes.len()]);
        out.lines.push(format!("api {}", api_name(i)));
        let mut sim = Sim::new(&t, "g0", &mut out);
        let steps = 20 + rng.below(60);
        for _ in 0..steps {
            let known = sim.known();
            let x = *rng.pick(&known);
            if sim.arena.is_tok(x) {
                let op = *rng.pick(&TOKEN_OPS[..]);
                sim.nav(x, op, &mut out);
            } else {
                match rng.below(12) {
                    0 => {
                        let r = *rng.pick(&ROUTES[..12]);
                        // a route over a small sub-tree only
                        if sim.arena.nodes[x].end - sim.arena.nodes[x].start < 30 {
                            route(&mut sim, x, r, &mut out);
                        }
                    }
                    1 => {
                        let kids = sim.arena.nodes[x].children.clone();
                        if !kids.is_empty() {
                            let i = rng.below(kids.len());
                            let end = sim.arena.nodes[kids[i]].end;
                            let start = sim.arena.nodes[kids[i]].start;
                            match rng.below(4) {
                                0 => sim.nav(x, &["next_child_or_token_after", &i.to_string(), &end.to_string()], &mut out),
                                1 => sim.nav(x, &["prev_child_or_token_before", &i.to_string(), &start.to_string()], &mut out),
                                2 => sim.nav(x, &["next_child_after", &i.to_string(), &end.to_string()], &mut out),
                                _ => sim.nav(x, &["prev_child_before", &i.to_string(), &start.to_string()], &mut out),
                            };
                        }
                    }
                    2 => {
                        let kind = if rng.chance(1, 2) { "nodes" } else { "elems" };
                        let mut ops = vec![];
                        let kids = sim.arena.kids(x, kind == "elems");
                        let mut taken = 0;
                        let mut shown: Vec<usize> = vec![];
                        for _ in 0..(1 + rng.below(6)) {
                            let op = *rng.pick(&["next", "next", "len", "size_hint", "nth1", "nth2"]);
                            let skip = match op {
                                "next" => Some(0),
                                "nth1" => Some(1),
                                "nth2" => Some(2),
                                _ => None,
                            };
                            if let Some(sk) = skip {
                                if let Some(k) = kids.get(taken + sk) {
                                    shown.push(*k);
                                    taken += sk + 1;
                                } else {
                                    taken = kids.len();
                                }
                            }
                            ops.push(op);
                        }
                        match rng.below(3) {
                            0 => ops.push("count"),
                            1 => {
                                ops.push("last");
                                if taken < kids.len() {
                                    shown.push(*kids.last().unwrap());
                                }
                            }
                            _ => {
                                ops.push("fold");
                                for k in kids.iter().skip(taken) {
                                    shown.push(*k);
                                }
                            }
                        }
                        out.lines.push(format!("chiter e{} {} {}", sim.eid(x), kind, ops.join(" ")));
                        for k in shown {
                            sim.reg(k, &mut out);
                        }
                    }
                    _ => {
                        let op = *rng.pick(&NODE_OPS[..]);
                        // whole-tree walks only on smallish sub-trees
                        if matches!(op, ["descendants"] | ["descendants_with_tokens"] | ["preorder"] | ["preorder_with_tokens"])
                            && sim.arena.nodes[x].children.len() > 12
                        {
                            continue;
                        }
                        sim.nav(x, op, &mut out);
                    }
                }
            }
        }
        for x in sim.known() {
            out.lines.push(format!("nav e{} range", sim.eid(x)));
        }
    }
    // two dialects over one cache: the same raw kind has a static text of another length in the second one (the
    // session's table is switched for the second tree and switched back at the end of the case; the first tree is
    // not read in between).  Positions in the second tree must follow its own token lengths.
    let n = if tier == "thorough" { 120 } else { 12 };
    for i in 0..n {
        let (sk, old) = STATICS[i % STATICS.len()];
        let alt = ["=>", "", "and", "é"][(i / STATICS.len()) % 4];
        if alt.len() == old.len() {
            continue;
        }
        let leaf = |rng: &mut Rng| RefTree::Tok(INTERNED_KINDS[rng.below(3)], rng.pick(&TEXTS[..]).to_string());
        let (a, b) = (leaf(&mut rng), leaf(&mut rng));
        let shape = |txt: &str| {
            RefTree::Node(0, vec![
                a.clone(),
                RefTree::Tok(sk, txt.to_string()),
                RefTree::Node(1, vec![RefTree::Tok(sk, txt.to_string()), b.clone()]),
                RefTree::Tok(sk, txt.to_string()),
                a.clone(),
            ])
        };
        let (t1, t2) = (shape(old), shape(alt));
        start_case(&mut out, &mut case, &t1, &mut rng, bes[i % bes.len()]);
        out.lines.push(format!("syn {} {}", sk, hex(alt)));
        out.lines.push("builder c0".into());
        emit_tree(&t2, &mut out.lines, &mut rng);
        out.lines.push("finish".into());
        out.lines.push(format!("api {}", api_name(i)));
        let mut sim = Sim::new(&t2, "g1", &mut out);
        let r = ROUTES[i % ROUTES.len()];
        route(&mut sim, 0, r, &mut out);
        sim.nav(0, &["descendants_with_tokens"], &mut out);
        for x in sim.known() {
            out.lines.push(format!("nav e{} range", sim.eid(x)));
            if sim.arena.is_tok(x) {
                sim.nav(x, &["next_token"], &mut out);
            }
        }
        out.lines.push(format!("syn {} {}", sk, hex(old)));
    }
    // trees that come out of a builder *history*: checkpoints wrapped and reverted (text is added and thrown away again),
    // static kinds given another text (a documented misuse that optimised builds accept and must survive).  The tree is
    // only known to the harness' identity-tracking reference, so it is read from the root: every element's span against
    // that reference, the walks, the text.
    let nh = if tier == "thorough" { 1500 } else { 150 };
    for i in 0..nh {
        out.lines.push(format!("case {}", case));
        case += 1;
        out.next_id = 0;
        out.lines.push(format!("cache {}", bes[i % bes.len()]));
        out.lines.push("builder c0".into());
        let len = 5 + rng.below(if i % 10 == 0 { 120 } else { 40 });
        crate::gen::parser_walk(&mut rng, len, i % 3 == 0, &mut out.lines);
        out.lines.push(format!("api {}", api_name(i)));
        out.lines.push("red g0".into());
        for l in ["nav e0 range", "nav e0 preorder_with_tokens", "nav e0 descendants_with_tokens", "nav e0 children_with_tokens", "resolve e0", "nav e0 last_token", "nav e0 first_token"] {
            out.lines.push(l.into());
        }
    }
    out.lines
}

/// C13: offset and range queries
pub fn gen_queries(seed: u64, tier: &str) -> Vec<String> {
    let mut rng = Rng::new(seed ^ 0xC13);
    let mut out = Out { lines: vec![], next_id: 0 };
    header(&mut out.lines);
    let mut case = 0usize;
    let max = if tier == "thorough" { 5 } else { 4 };
    let toks = vec![
        RefTree::Tok(10, "a".into()),
        RefTree::Tok(10, "".into()),
        RefTree::Tok(11, "éb".into()),
        RefTree::Tok(13, "".into()),
    ];
    for (ti, t) in small_trees(max, &toks, &[0]).iter().enumerate() {
        start_case(&mut out, &mut case, t, &mut rng, "user");
        out.lines.push(format!("api {}", api_name(ti)));
        // queries first (fresh tree: the queries materialise what they need), from every node; every third tree has a
        // history first: the elements the queries pass over were created by some other route (backwards, by tokens, ...)
        let mut sim = Sim::new(t, "g0", &mut out);
        if ti % 3 == 1 {
            let r = ["backward", "tokens_back", "nodes_back", "indexed_back", "hops", "iter_nth"][(ti / 3) % 6];
            route(&mut sim, 0, r, &mut out);
        }
        route(&mut sim, 0, "queries", &mut out);
        sim.nav(0, &["descendants"], &mut out);
        for x in sim.known() {
            if x != 0 && !sim.arena.is_tok(x) {
                route(&mut sim, x, "queries", &mut out);
            }
        }
        // outside the precondition: must panic in both
        let e = sim.arena.nodes[0].end;
        out.lines.push(format!("tao e0 {}", e + 1));
        out.lines.push(format!("cover e0 0 {}", e + 1));
    }
    // wide nodes: a look-up may treat nodes with many children differently (binary search, early exits): every offset and
    // every range of nodes with 17 … 70 children -- tokens of 0-2 bytes, empty nodes, small nodes -- as root and as an inner node
    let widths: &[usize] = if tier == "thorough" { &[16, 17, 18, 20, 33, 64, 70] } else { &[17, 20, 33] };
    for (wi, w) in widths.iter().enumerate() {
        let mut kids = vec![];
        for j in 0..*w {
            kids.push(match (j + wi) % 7 {
                0 | 3 => RefTree::Tok(10, "a".into()),
                1 => RefTree::Tok(11, "éb".into()),
                2 => RefTree::Tok(10, "".into()),
                4 => RefTree::Node(1, vec![]),
                5 => RefTree::Node(1, vec![RefTree::Tok(10, "a".into()), RefTree::Tok(10, "b".into())]),
                _ => RefTree::Tok(10, "cd".into()),
            });
        }
        let wide = RefTree::Node(2, kids);
        let t = if wi % 2 == 0 { RefTree::Node(0, vec![wide]) } else { RefTree::Node(0, vec![RefTree::Tok(10, "x".into()), wide, RefTree::Tok(10, "y".into())]) };
        start_case(&mut out, &mut case, &t, &mut rng, "user");
        out.lines.push(format!("api {}", api_name(wi)));
        let mut sim = Sim::new(&t, "g0", &mut out);
        route(&mut sim, 0, "queries", &mut out);
        sim.nav(0, &["children"], &mut out);
        for x in sim.known() {
            if x != 0 && !sim.arena.is_tok(x) {
                route(&mut sim, x, "queries", &mut out);
            }
        }
    }
    let n = if tier == "thorough" { 2000 } else { 200 };
    for i in 0..n {
        let t = random_red_tree(&mut rng, i % 5 == 0);
        start_case(&mut out, &mut case, &t, &mut rng, "user");
        out.lines.push(format!("api {}", api_name(i)));
        let mut sim = Sim::new(&t, "g0", &mut out);
        if i % 2 == 0 {
            sim.nav(0, &["descendants"], &mut out);
        } else if i % 4 == 1 {
            let r = *rng.pick(&["backward", "tokens_back", "nodes_back", "indexed_back", "tokens_fwd"]);
            route(&mut sim, 0, r, &mut out);
        }
        for _ in 0..60 {
            let known: Vec<usize> = sim.known().into_iter().filter(|x| !sim.arena.is_tok(*x)).collect();
            let x = *rng.pick(&known);
            let (s, e) = (sim.arena.nodes[x].start, sim.arena.nodes[x].end);
            if rng.chance(1, 2) {
                let off = s + rng.below(e - s + 1);
                emit_tao(&mut sim, x, off, &mut out);
            } else {
                let a = s + rng.below(e - s + 1);
                let b = a + rng.below(e - a + 1);
                emit_cover(&mut sim, x, a, b, &mut out);
            }
        }
    }
    out.lines
}

fn all_paths(t: &RefTree, cur: &mut Vec<usize>, out: &mut Vec<(Vec<usize>, RefTree)>) {
    out.push((cur.clone(), t.clone()));
    if let RefTree::Node(_, cs) = t {
        for (i, c) in cs.iter().enumerate() {
            cur.push(i);
            all_paths(c, cur, out);
            cur.pop();
        }
    }
}

fn gpath(root: usize, p: &[usize]) -> String {
    let mut s = format!("g{}", root);
    for i in p {
        s.push_str(&format!(".{}", i));
    }
    s
}

/// C14: replace every position by replacements of different size and shape
pub fn gen_replace(seed: u64, tier: &str) -> Vec<String> {
    let mut rng = Rng::new(seed ^ 0xC14);
    let mut out = Out { lines: vec![], next_id: 0 };
    header(&mut out.lines);
    let mut case = 0usize;
    let bes: Vec<&str> = backends().into_iter().filter(|b| !b.ends_with("ref")).collect();
    let mut trees: Vec<RefTree> = small_red_trees(if tier == "thorough" { 5 } else { 4 });
    // shared, deduplicated sub-trees occurring several times
    let sub = RefTree::Node(1, vec![RefTree::Tok(10, "ab".into()), RefTree::Tok(12, "+".into())]);
    trees.push(RefTree::Node(0, vec![sub.clone(), RefTree::Tok(11, "é".into()), sub.clone(), RefTree::Node(2, vec![sub.clone()])]));
    let n_random = if tier == "thorough" { 1500 } else { 150 };
    for i in 0..n_random {
        trees.push(random_red_tree(&mut rng, i % 10 == 0));
    }
    for (ti, t) in trees.iter().enumerate() {
        start_case(&mut out, &mut case, t, &mut rng, bes[ti % bes.len()]);
        out.lines.push(format!("api {}", api_name(ti)));
        let mut sim = Sim::new(t, "g0", &mut out);
        sim.nav(0, &["descendants_with_tokens"], &mut out);
        let mut positions = vec![];
        all_paths(t, &mut vec![], &mut positions);
        if positions.len() > 12 {
            // random positions of large trees
            let mut sel = vec![];
            for _ in 0..10 {
                sel.push(rng.pick(&positions).clone());
            }
            positions = sel;
        }
        let mut next_g = 1usize;
        for (path, el) in positions {
            // arena id of the position: walk the arena along the path
            let mut x = 0usize;
            for i in &path {
                x = sim.arena.nodes[x].children[*i];
            }
            let n_repl = if tier == "thorough" { 6 } else { 4 };
            for k in 0..n_repl {
                // the replacement is built through the same cache (as the child of a scratch root)
                let repl: RefTree = match (&el, k) {
                    (_, 0) => el.clone(), // an equal element: the result must equal the original
                    (RefTree::Tok(kind, _), 1) if !static_kind(*kind) => RefTree::Tok(*kind, "".into()),
                    (RefTree::Tok(kind, _), 2) if !static_kind(*kind) => RefTree::Tok(*kind, "longer→text".into()),
                    (RefTree::Tok(kind, s), _) => {
                        if static_kind(*kind) { RefTree::Tok(*kind, s.clone()) } else { RefTree::Tok(*kind, rng.pick(&TEXTS[..]).to_string()) }
                    }
                    (RefTree::Node(kind, _), 1) => RefTree::Node(*kind, vec![]),
                    (RefTree::Node(kind, cs), 2) => {
                        let mut cs2 = cs.clone();
                        cs2.push(random_token(&mut rng));
                        cs2.insert(0, RefTree::Node(3, vec![random_token(&mut rng)]));
                        RefTree::Node(*kind, cs2)
                    }
                    (RefTree::Node(kind, _), _) => match random_red_tree(&mut rng, false) {
                        RefTree::Node(_, cs) => RefTree::Node(*kind, cs),
                        t => t,
                    },
                };
                // sometimes a replacement of another kind: must panic, not corrupt
                let repl = if k == 3 && rng.chance(1, 4) {
                    match repl {
                        RefTree::Tok(kind, s) if !static_kind(kind) => RefTree::Tok(if kind == 10 { 11 } else { 10 }, s),
                        RefTree::Node(kind, cs) => RefTree::Node((kind + 1) % 4, cs),
                        r => r,
                    }
                } else {
                    repl
                };
                let scratch = RefTree::Node(3, vec![repl.clone()]);
                if ti % 2 == 1 && (k == 0 || rng.chance(1, 4)) {
                    // the replacement comes from another cache over the same interner: equal elements, other allocations
                    let mut evs = vec![];
                    compact_tree(&scratch, &mut rng, &mut evs);
                    out.lines.push(format!("wbuild with_interner c0 {}", evs.join(",")));
                } else {
                    out.lines.push("builder c0".into());
                    emit_tree(&scratch, &mut out.lines, &mut rng);
                    out.lines.push("finish".into());
                }
                let scratch_g = next_g;
                next_g += 1;
                out.lines.push(format!("replace e{} g{}.0", sim.eid(x), scratch_g));
                let kinds_match = match (&el, &repl) {
                    (RefTree::Tok(a, _), RefTree::Tok(b, _)) => a == b,
                    (RefTree::Node(a, _), RefTree::Node(b, _)) => a == b,
                    _ => false,
                };
                if kinds_match {
                    let res_g = next_g;
                    next_g += 1;
                    out.lines.push(format!("heads g{}", res_g));
                    out.lines.push(format!("text g{}", res_g));
                    if k == 0 {
                        out.lines.push(format!("geq g0 g{}", res_g));
                        out.lines.push(format!("ghash g{}", res_g));
                    } else if path.len() > 0 && rng.chance(1, 3) {
                        // what is off the spine is shared with the original, not copied
                        out.lines.push(format!("ids g0"));
                        out.lines.push(format!("ids g{}", res_g));
                    }
                }
            }
        }
        // the original tree and the red tree built on it are unchanged
        out.lines.push("dump g0".into());
        sim.nav(0, &["descendants_with_tokens"], &mut out);
    }
    // volume: a node with more children than a 16-bit index can address (assembled directly from shared children), elements
    // replaced near its end, in its middle and inside its last child
    for w in if tier == "thorough" { vec![65535usize, 65536, 65537, 70001] } else { vec![65538usize] } {
        out.lines.push(format!("case {}", case));
        case += 1;
        out.lines.push("cache user".into());
        out.lines.push("builder c0".into());
        emit_tree(&RefTree::Node(3, vec![RefTree::Tok(10, "a".into()), RefTree::Tok(10, "bc".into()), RefTree::Node(1, vec![RefTree::Tok(10, "d".into())]),
                                          RefTree::Tok(10, "xyz".into()), RefTree::Node(1, vec![RefTree::Tok(10, "longer".into())])]), &mut out.lines, &mut rng);
        out.lines.push("finish".into()); // g0: the parts
        let mut refs: Vec<&str> = Vec::with_capacity(w);
        for i in 0..w - 1 {
            refs.push(if i % 2 == 0 { "g0.0" } else { "g0.1" });
        }
        refs.push("g0.2");
        out.lines.push(format!("gnew 0 {}", refs.join(" "))); // g1
        out.lines.push("red g1".into()); // e0
        out.lines.push("nav e0 last_child_or_token".into()); // e1: the node at index w-1
        out.lines.push("nav e1 prev_sibling_or_token".into()); // e2: token at index w-2
        out.lines.push("nav e2 prev_sibling_or_token".into()); // e3: token at index w-3
        out.lines.push("nav e1 first_child_or_token".into()); // e4: token inside the last child
        out.lines.push("replace e2 g0.3".into()); // g2
        out.lines.push("heads g2".into());
        out.lines.push("text g2".into());
        out.lines.push("replace e3 g0.3".into()); // g3
        out.lines.push("heads g3".into());
        out.lines.push("text g3".into());
        out.lines.push("replace e1 g0.4".into()); // g4
        out.lines.push("heads g4".into());
        out.lines.push("text g4".into());
        out.lines.push("replace e4 g0.3".into()); // g5
        out.lines.push("heads g5".into());
        out.lines.push("text g5".into());
        out.lines.push("heads g1".into());
    }
    out.lines
}

/// texts of a given byte length built from 1-4 byte characters in a given pattern
fn text_of_len(len: usize, pattern: usize, rng: &mut Rng) -> String {
    let chars = ['a', 'é', '→', '\u{1F600}'];
    let mut s = String::new();
    let mut i = 0;
    while s.len() < len {
        let want = len - s.len();
        let c = match pattern {
            0 => 'a',
            1 => chars[i % 2],
            2 => chars[(i % 3).min(2)],
            3 => chars[3 - (i % 4)],
            4 => if i % 5 == 0 { 'a' } else { '\u{1F600}' },
            _ => *rng.pick(&chars[..]),
        };
        let c = if c.len_utf8() > want { chars.iter().rev().cloned().find(|d| d.len_utf8() <= want).unwrap_or('a') } else { c };
        s.push(c);
        i += 1;
    }
    s
}

/// C19: display and debug output
pub fn gen_fmt(seed: u64, tier: &str) -> Vec<String> {
    let mut rng = Rng::new(seed ^ 0xC19);
    let mut out = Out { lines: vec![], next_id: 0 };
    header(&mut out.lines);
    let mut case = 0usize;
    let bes: Vec<&str> = backends().into_iter().filter(|b| !b.ends_with("ref")).collect();
    // deep chains, formatted on a thread with an ordinary (2 MiB) stack: the walks behind display / debug are loops, so no depth is special
    out.lines.push(format!("case {}", case));
    case += 1;
    for d in if tier == "thorough" { vec![1usize, 2, 1000, 6000, 16000, 24000] } else { vec![3usize, 6000, 16000] } {
        out.lines.push(format!("deepfmt {}", d));
    }
    // every length 0..40 (thorough 0..60) x alignment patterns, plus characters that need escaping
    let maxlen = if tier == "thorough" { 60 } else { 40 };
    let patterns = if tier == "thorough" { 12 } else { 8 };
    for len in 0..=maxlen {
        let mut toks = vec![];
        for pat in 0..patterns {
            toks.push(RefTree::Tok(10, text_of_len(len, pat, &mut rng)));
        }
        // shifted alignments: a 1..3 byte prefix before a run of 4-byte characters
        for pre in 1..4 {
            if len > pre {
                let mut s = "a".repeat(pre);
                s.push_str(&text_of_len(len - pre, 4, &mut rng));
                toks.push(RefTree::Tok(11, s));
            }
        }
        let t = RefTree::Node(0, vec![RefTree::Node(1, toks)]);
        start_case(&mut out, &mut case, &t, &mut rng, bes[len % bes.len()]);
        let mut sim = Sim::new(&t, "g0", &mut out);
        sim.nav(0, &["descendants_with_tokens"], &mut out);
        for x in sim.known() {
            for what in ["display", "debug", "debug_rec"] {
                out.lines.push(format!("fmt e{} {}", sim.eid(x), what));
            }
        }
    }
    // static texts are token texts like any other: long ones are abbreviated too (lengths around the threshold, multi-byte
    // characters and escapes around the cut)
    let long_statics: Vec<(u32, String)> = vec![
        (30, "<<<<<<< conflict-marker: ours\n\t".to_string()),
        (31, "é→é→é→é→é→😀😀x".to_string()),
        (32, "abcdefghijklmnopqrstuvw\"y".to_string()),
        (33, "abcdefghijklmnopqrstuvwx".to_string()),
        (34, "a".repeat(26)),
        (35, format!("{}{}", "a".repeat(19), "😀😀")),
    ];
    for (k, t) in &long_statics {
        out.lines.push(format!("syn {} {}", k, hex(t)));
    }
    for (bi, be) in bes.iter().enumerate() {
        let mut toks = vec![];
        for (k, t) in &long_statics {
            toks.push(RefTree::Tok(*k, t.clone()));
            // the same text interned under a kind without static text
            toks.push(RefTree::Tok(10, t.clone()));
        }
        let t = RefTree::Node(0, vec![RefTree::Node(1, toks)]);
        out.lines.push(format!("case {}", case));
        case += 1;
        out.next_id = 0;
        out.lines.push(format!("cache {}", be));
        out.lines.push("builder c0".into());
        // by kind alone and with the text, alternately
        fn emit(t: &RefTree, out: &mut Vec<String>, n: &mut usize) {
            match t {
                RefTree::Tok(k, s) => {
                    *n += 1;
                    if *k >= 30 && *n % 4 == 1 {
                        out.push(format!("stok {}", k));
                    } else {
                        out.push(format!("tok {} {}", k, hex(s)));
                    }
                }
                RefTree::Node(k, cs) => {
                    out.push(format!("start {}", k));
                    for c in cs {
                        emit(c, out, n);
                    }
                    out.push("finish_node".into());
                }
            }
        }
        let mut n = bi;
        emit(&t, &mut out.lines, &mut n);
        out.lines.push("finish".into());
        out.lines.push(format!("api {}", api_name(bi)));
        let mut sim = Sim::new(&t, "g0", &mut out);
        sim.nav(0, &["descendants_with_tokens"], &mut out);
        for x in sim.known() {
            for what in ["display", "debug", "debug_rec"] {
                out.lines.push(format!("fmt e{} {}", sim.eid(x), what));
            }
        }
    }
    // escapes
    let esc = RefTree::Node(
        0,
        vec![
            RefTree::Tok(10, "q\"uote".into()),
            RefTree::Tok(10, "back\\slash".into()),
            RefTree::Tok(10, "nl\nt\tr\r".into()),
            RefTree::Tok(10, "'single'".into()),
            RefTree::Tok(11, "ctl\u{1}\u{7f}".into()),
            RefTree::Tok(11, "long \"quoted\" text that is abbreviated\n".into()),
            RefTree::Tok(10, "// don't touch this: it is load bearing".into()),
            RefTree::Tok(10, "e\u{301}".into()),
            RefTree::Tok(10, "it's".into()),
            RefTree::Tok(11, "cafe\u{301} au lait, s'il vous plait, merci".into()),
        ],
    );
    // long (abbreviated) texts with a character that `{:?}` escapes before, inside and behind the cut window
    let esc = match esc {
        RefTree::Node(k, mut cs) => {
            // `'` is NOT escaped by `{:?}` of a string, a combining mark / zero-width joiner / soft hyphen / DEL IS (at any
            // position, not only the first): whoever re-implements the quoting with another escaping routine differs here
            for ch in ['"', '\\', '\n', '\t', '\'', '\u{301}', '\u{200d}', '\u{ad}', '\u{7f}', '\0', 'é'] {
                for pos in [0usize, 10, 20, 21, 22, 23, 24, 27] {
                    let mut t: Vec<char> = "abcdefghijklmnopqrstuvwxyz0123".chars().collect();
                    t[pos] = ch;
                    cs.push(RefTree::Tok(10, t.into_iter().collect()));
                }
            }
            RefTree::Node(k, cs)
        }
        t => t,
    };
    start_case(&mut out, &mut case, &esc, &mut rng, "user");
    let mut sim = Sim::new(&esc, "g0", &mut out);
    sim.nav(0, &["descendants_with_tokens"], &mut out);
    for x in sim.known() {
        for what in ["display", "debug", "debug_rec"] {
            out.lines.push(format!("fmt e{} {}", sim.eid(x), what));
        }
    }
    // all trees
    let mut trees = small_red_trees(if tier == "thorough" { 4 } else { 3 });
    let n = if tier == "thorough" { 2000 } else { 200 };
    for i in 0..n {
        trees.push(if i % 20 == 0 { deep_tree(&mut rng, 40) } else { random_red_tree(&mut rng, i % 10 == 0) });
    }
    for (ti, t) in trees.iter().enumerate() {
        start_case(&mut out, &mut case, t, &mut rng, bes[ti % bes.len()]);
        let mut sim = Sim::new(t, "g0", &mut out);
        // formatting on a fresh tree first (it materialises what it needs), then on every element
        out.lines.push("fmt e0 debug_rec".into());
        out.lines.push("fmt e0 display".into());
        sim.nav(0, &["descendants_with_tokens"], &mut out);
        for x in sim.known() {
            if sim.arena.nodes[x].children.len() > 10 {
                continue;
            }
            for what in ["display", "debug", "debug_rec"] {
                out.lines.push(format!("fmt e{} {}", sim.eid(x), what));
            }
        }
    }
    out.lines
}

/// C11: token text, static text, text equality
pub fn gen_tokens(seed: u64, tier: &str) -> Vec<String> {
    let mut rng = Rng::new(seed ^ 0xC11);
    let mut out = Out { lines: vec![], next_id: 0 };
    header(&mut out.lines);
    let mut case = 0usize;
    let bes: Vec<&str> = backends().into_iter().filter(|b| !b.ends_with("ref")).collect();
    // the token forms: static kinds (by text and by kind alone), interned kinds, interned tokens
    // whose text equals some static text, the empty static text and the empty interned text
    let forms: Vec<RefTree> = vec![
        RefTree::Tok(12, "+".into()),
        RefTree::Tok(13, "".into()),
        RefTree::Tok(14, "é→".into()),
        RefTree::Tok(16, "ab".into()),
        RefTree::Tok(17, "+".into()),
        RefTree::Tok(10, "+".into()),
        RefTree::Tok(10, "".into()),
        RefTree::Tok(11, "+".into()),
        RefTree::Tok(15, "ab".into()),
        RefTree::Tok(10, "ab".into()),
        RefTree::Tok(11, "é→".into()),
        RefTree::Tok(15, "x".into()),
        RefTree::Tok(10, "x".into()),
    ];
    let n = if tier == "thorough" { 2000 } else { 150 };
    for i in 0..n {
        // two trees through one cache (sharing an interner)
        let mk = |rng: &mut Rng| {
            let cnt = 2 + rng.below(6);
            let mut cs = vec![];
            for _ in 0..cnt {
                let t = if rng.chance(3, 4) { rng.pick(&forms).clone() } else { random_token(rng) };
                if rng.chance(1, 5) {
                    cs.push(RefTree::Node(1, vec![t]));
                } else {
                    cs.push(t);
                }
            }
            RefTree::Node(0, cs)
        };
        let t1 = if i == 0 { RefTree::Node(0, forms.clone()) } else { mk(&mut rng) };
        let t2 = mk(&mut rng);
        start_case(&mut out, &mut case, &t1, &mut rng, bes[i % bes.len()]);
        out.lines.push("builder c0".into());
        emit_tree(&t2, &mut out.lines, &mut rng);
        out.lines.push("finish".into());
        out.lines.push(format!("api {}", api_name(i)));
        let mut s1 = Sim::new(&t1, "g0", &mut out);
        s1.nav(0, &["descendants_with_tokens"], &mut out);
        let mut s2 = Sim::new(&t2, "g1", &mut out);
        s2.nav(0, &["descendants_with_tokens"], &mut out);
        let mut toks: Vec<usize> = vec![];
        for x in s1.known() {
            if s1.arena.is_tok(x) {
                toks.push(s1.eid(x));
            }
        }
        for x in s2.known() {
            if s2.arena.is_tok(x) {
                toks.push(s2.eid(x));
            }
        }
        for a in &toks {
            out.lines.push(format!("resolve e{}", a));
            out.lines.push(format!("static_text e{}", a));
            out.lines.push(format!("text_key e{}", a));
        }
        // all ordered pairs
        for a in &toks {
            for b in &toks {
                out.lines.push(format!("text_eq e{} e{}", a, b));
            }
        }
    }
    // tokens below nodes whose cache heads collide (narrow hash mask: same kind and text length is enough): three and more
    // different one-token nodes of one head, also one level down inside otherwise identical parents, in two trees over
    // one cache -- every token must still resolve to the text it was built from
    let m = if tier == "thorough" { 600 } else { 45 };
    for i in 0..m {
        let mask = [0u32, 1, 3][i % 3];
        let words: &[&str] = [&["a", "b", "c", "d", "e"][..], &["ab", "cd", "é", "ef", "+"][..], &["", ""][..]][(i / 3) % 3];
        let mk = |rng: &mut Rng| {
            let cnt = 3 + rng.below(4);
            let mut cs = vec![];
            for _ in 0..cnt {
                let w = *rng.pick(words);
                let k = if w == "+" && rng.chance(1, 2) { 12 } else if w.is_empty() && rng.chance(1, 2) { 13 } else { [10u32, 10, 11][rng.below(3)] };
                let inner = RefTree::Node(1, vec![RefTree::Tok(k, w.to_string())]);
                cs.push(if rng.chance(1, 3) { RefTree::Node(2, vec![inner]) } else { inner });
            }
            RefTree::Node(0, cs)
        };
        let t1 = mk(&mut rng);
        let t2 = if i % 5 == 4 {
            // the whole second tree differs from the first in one token text only
            RefTree::Node(0, vec![RefTree::Node(2, vec![RefTree::Node(1, vec![RefTree::Tok(10, words[1].to_string())])])])
        } else {
            mk(&mut rng)
        };
        let t1 = if i % 5 == 4 { RefTree::Node(0, vec![RefTree::Node(2, vec![RefTree::Node(1, vec![RefTree::Tok(10, words[0].to_string())])])]) } else { t1 };
        out.lines.push(format!("cfg mask {}", mask));
        start_case(&mut out, &mut case, &t1, &mut rng, bes[i % bes.len()]);
        out.lines.push("builder c0".into());
        emit_tree(&t2, &mut out.lines, &mut rng);
        out.lines.push("finish".into());
        out.lines.push(format!("api {}", api_name(i)));
        let mut toks: Vec<usize> = vec![];
        for (t, g) in [(&t1, "g0"), (&t2, "g1")] {
            let mut s = Sim::new(t, g, &mut out);
            s.nav(0, &["descendants_with_tokens"], &mut out);
            for x in s.known() {
                if s.arena.is_tok(x) {
                    toks.push(s.eid(x));
                }
            }
        }
        for a in &toks {
            out.lines.push(format!("resolve e{}", a));
            out.lines.push(format!("text_key e{}", a));
        }
        for a in &toks {
            for b in &toks {
                out.lines.push(format!("text_eq e{} e{}", a, b));
            }
        }
    }
    out.lines.push(format!("cfg mask {}", u32::MAX));
    // two languages through one cache (a cache is not tied to one `Syntax`): a raw kind that has static text in one of them
    // only.  Tree 1 is built and read under the session's syntax, then the kind's static-ness is flipped, tree 2 is built
    // through the same cache and read, then the table is switched back and tree 1 is read again.  Both orders: static first
    // (kind 12, "+"), and plain first (kind 15, which becomes static "ab").
    let m2 = if tier == "thorough" { 240 } else { 24 };
    for i in 0..m2 {
        let static_first = i % 2 == 0;
        let k: u32 = if static_first { 12 } else { 15 };
        let stext = if static_first { "+" } else { "ab" };
        let words = ["+", "ab", "x", "", "é→", "abc"];
        let plain = |rng: &mut Rng| RefTree::Tok(k, rng.pick(&words[..]).to_string());
        let other = |rng: &mut Rng| match rng.below(4) {
            0 => RefTree::Tok(10, rng.pick(&words[..]).to_string()),
            1 => RefTree::Tok(11, stext.to_string()),
            2 => RefTree::Tok(13, String::new()),
            _ => RefTree::Tok(16, "ab".into()),
        };
        // the tree in which `k` is static / the tree in which it is not
        let mk = |rng: &mut Rng, k_static: bool| {
            let cnt = 2 + rng.below(4);
            let mut cs = vec![];
            for j in 0..cnt {
                let t = if j == 0 || rng.chance(1, 2) { if k_static { RefTree::Tok(k, stext.to_string()) } else { plain(rng) } } else { other(rng) };
                cs.push(if rng.chance(1, 4) { RefTree::Node(1, vec![t]) } else { t });
            }
            RefTree::Node(0, cs)
        };
        let emit = |t: &RefTree, k_static: bool, rng: &mut Rng, lines: &mut Vec<String>| {
            fn go(t: &RefTree, k: u32, k_static: bool, rng: &mut Rng, lines: &mut Vec<String>) {
                match t {
                    RefTree::Tok(kk, s) => {
                        let is_static = if *kk == k { k_static } else { static_kind(*kk) };
                        if is_static && rng.chance(1, 2) {
                            lines.push(format!("stok {}", kk));
                        } else {
                            lines.push(format!("tok {} {}", kk, hex(s)));
                        }
                    }
                    RefTree::Node(kk, cs) => {
                        lines.push(format!("start {}", kk));
                        for c in cs {
                            go(c, k, k_static, rng, lines);
                        }
                        lines.push("finish_node".into());
                    }
                }
            }
            lines.push("builder c0".into());
            go(t, k, k_static, rng, lines);
            lines.push("finish".into());
        };
        let t1 = mk(&mut rng, static_first);
        let t2 = mk(&mut rng, !static_first);
        out.lines.push(format!("case {}", case));
        case += 1;
        out.next_id = 0;
        out.lines.push(format!("cache {}", bes[i % bes.len()]));
        emit(&t1, static_first, &mut rng, &mut out.lines);
        out.lines.push(format!("api {}", if i % 4 < 2 { "plain" } else { "resolved" }));
        let read = |t: &RefTree, g: &str, out: &mut Out| {
            let mut s = Sim::new(t, g, out);
            s.nav(0, &["descendants_with_tokens"], out);
            let toks: Vec<usize> = s.known().into_iter().filter(|x| s.arena.is_tok(*x)).map(|x| s.eid(x)).collect();
            for a in &toks {
                out.lines.push(format!("resolve e{}", a));
                out.lines.push(format!("static_text e{}", a));
                out.lines.push(format!("text_key e{}", a));
            }
            for a in &toks {
                for b in &toks {
                    out.lines.push(format!("text_eq e{} e{}", a, b));
                }
            }
        };
        read(&t1, "g0", &mut out);
        let flip = |to_static: bool, lines: &mut Vec<String>| {
            if to_static {
                lines.push(format!("syn {} {}", k, hex(stext)));
            } else {
                lines.push(format!("unsyn {}", k));
            }
        };
        flip(!static_first, &mut out.lines);
        emit(&t2, !static_first, &mut rng, &mut out.lines);
        read(&t2, "g1", &mut out);
        flip(static_first, &mut out.lines);
        read(&t1, "g0", &mut out);
    }
    out.lines
}

/// split a string into a tree: tokens of the given chunk sizes (in chars), some wrapped in nodes,
/// with empty tokens and empty nodes sprinkled in
fn chunk_tree(s: &str, rng: &mut Rng, style: usize) -> RefTree {
    let chars: Vec<char> = s.chars().collect();
    let mut cs = vec![];
    let mut i = 0;
    while i < chars.len() {
        let n = match style {
            0 => chars.len(),
            1 => 1,
            2 => 2,
            _ => 1 + rng.below(3),
        }
        .min(chars.len() - i);
        let piece: String = chars[i..i + n].iter().collect();
        i += n;
        let tok = if piece == "+" && rng.chance(1, 2) { RefTree::Tok(12, piece) } else { RefTree::Tok(*rng.pick(&[10u32, 11, 15][..]), piece) };
        match rng.below(6) {
            0 => cs.push(RefTree::Node(1, vec![tok])),
            1 => {
                cs.push(RefTree::Tok(10, String::new()));
                cs.push(tok);
            }
            2 => {
                cs.push(tok);
                cs.push(RefTree::Node(2, vec![]));
            }
            _ => cs.push(tok),
        }
    }
    if style == 3 && cs.len() >= 2 {
        // nest the tail
        let tail = cs.split_off(cs.len() / 2);
        cs.push(RefTree::Node(3, tail));
    }
    RefTree::Node(0, cs)
}

fn boundaries(s: &str) -> Vec<usize> {
    let mut v: Vec<usize> = s.char_indices().map(|(i, _)| i).collect();
    v.push(s.len());
    v
}

/// C12: the text view against the string it denotes
pub fn gen_text(seed: u64, tier: &str) -> Vec<String> {
    let mut rng = Rng::new(seed ^ 0xC12);
    let mut out = Out { lines: vec![], next_id: 0 };
    header(&mut out.lines);
    let mut case = 0usize;
    let alphabet = ['a', 'b', '+', 'é', '→'];
    let probes = ['a', '+', 'é', '→', 'z', '\u{1F600}'];
    // all texts up to `maxc` characters over a 3-letter sub-alphabet + random longer ones
    let maxc = if tier == "thorough" { 4 } else { 3 };
    let mut texts: Vec<String> = vec![String::new()];
    let sub = ['a', 'é', '→'];
    let mut frontier: Vec<String> = vec![String::new()];
    for _ in 0..maxc {
        let mut next = vec![];
        for t in &frontier {
            for c in sub {
                let mut u = t.clone();
                u.push(c);
                next.push(u);
            }
        }
        texts.extend(next.iter().cloned());
        frontier = next;
    }
    let n_random = if tier == "thorough" { 1500 } else { 120 };
    for _ in 0..n_random {
        let n = 4 + rng.below(14);
        texts.push((0..n).map(|_| *rng.pick(&alphabet[..])).collect());
    }
    for (ti, s1) in texts.iter().enumerate() {
        // second text: same / one character changed / a prefix / an extension
        let s2: String = match ti % 4 {
            0 => s1.clone(),
            1 => {
                let mut cs: Vec<char> = s1.chars().collect();
                if !cs.is_empty() {
                    let i = rng.below(cs.len());
                    cs[i] = if cs[i] == 'a' { 'b' } else { 'a' };
                }
                cs.into_iter().collect()
            }
            2 => s1.chars().take(s1.chars().count() / 2).collect(),
            _ => format!("{}{}", s1, rng.pick(&alphabet[..])),
        };
        let t1 = chunk_tree(s1, &mut rng, ti % 4);
        let st2 = (ti + 1 + rng.below(3)) % 4;
        let t2 = chunk_tree(&s2, &mut rng, st2);
        start_case(&mut out, &mut case, &t1, &mut rng, if ti % 2 == 0 { "user" } else { backends()[0] });
        out.lines.push("builder c0".into());
        emit_tree(&t2, &mut out.lines, &mut rng);
        out.lines.push("finish".into());
        let s1e = Sim::new(&t1, "g0", &mut out);
        let root1 = s1e.eid(0);
        let s2e = Sim::new(&t2, "g1", &mut out);
        let root2 = s2e.eid(0);
        out.lines.push(format!("view e{}", root1)); // v0
        out.lines.push(format!("view e{}", root2)); // v1
        let mut nv = 2usize;
        let mut views: Vec<(usize, String)> = vec![(0, s1.clone()), (1, s2.clone())];
        // slices with character-boundary ends (all of them for short texts)
        let b1 = boundaries(s1);
        let mut pairs = vec![];
        for (i, a) in b1.iter().enumerate() {
            for b in &b1[i..] {
                pairs.push((*a, *b));
            }
        }
        if pairs.len() > 24 {
            let mut sel = vec![];
            for _ in 0..24 {
                sel.push(*rng.pick(&pairs));
            }
            pairs = sel;
        }
        for (k, (a, b)) in pairs.iter().enumerate() {
            let (sa, sb) = match k % 5 {
                0 if *b == s1.len() => (a.to_string(), "-".to_string()),
                1 if *a == 0 => ("-".to_string(), b.to_string()),
                2 if *a == 0 && *b == s1.len() => ("-".to_string(), "-".to_string()),
                _ => (a.to_string(), b.to_string()),
            };
            out.lines.push(format!("vslice v0 {} {}", sa, sb));
            views.push((nv, s1[*a..*b].to_string()));
            nv += 1;
        }
        // a slice of a slice, and slices of the second view
        if let Some((vi, vs)) = views.get(2 + rng.below(views.len().saturating_sub(2).max(1))).cloned() {
            let bs = boundaries(&vs);
            let a = *rng.pick(&bs);
            let b = *rng.pick(&bs);
            if a <= b {
                out.lines.push(format!("vslice v{} {} {}", vi, a, b));
                views.push((nv, vs[a..b].to_string()));
                nv += 1;
            }
        }
        let b2 = boundaries(&s2);
        for _ in 0..4 {
            let a = *rng.pick(&b2);
            let b = *rng.pick(&b2);
            if a <= b {
                out.lines.push(format!("vslice v1 {} {}", a, b));
                views.push((nv, s2[a..b].to_string()));
                nv += 1;
            }
        }
        // outside the view / reversed: must panic
        out.lines.push(format!("vslice v0 0 {}", s1.len() + 1));
        out.lines.push(format!("vslice v0 {} {}", s1.len() + 1, s1.len() + 1));
        if s1.len() >= 1 {
            out.lines.push("vslice v0 1 0".into());
        }
        // every query on every view
        for (vi, vs) in &views {
            out.lines.push(format!("vop v{} len", vi));
            out.lines.push(format!("vop v{} is_empty", vi));
            out.lines.push(format!("vop v{} to_string", vi));
            out.lines.push(format!("vop v{} chunks", vi));
            for p in probes {
                out.lines.push(format!("vop v{} contains {}", vi, hex(&p.to_string())));
                out.lines.push(format!("vop v{} find {}", vi, hex(&p.to_string())));
            }
            for off in boundaries(vs) {
                out.lines.push(format!("vop v{} char_at {}", vi, off));
            }
            out.lines.push(format!("vop v{} char_at {}", vi, vs.len() + 3));
            out.lines.push(format!("vop v{} eqstr {}", vi, hex(vs)));
            out.lines.push(format!("vop v{} eqstr {}", vi, hex(&format!("{}a", vs))));
            if !vs.is_empty() {
                let pre: String = vs.chars().take(vs.chars().count() - 1).collect();
                out.lines.push(format!("vop v{} eqstr {}", vi, hex(&pre)));
                let mut cs: Vec<char> = vs.chars().collect();
                cs[0] = if cs[0] == 'z' { 'y' } else { 'z' };
                out.lines.push(format!("vop v{} eqstr {}", vi, hex(&cs.into_iter().collect::<String>())));
            }
        }
        // view against view: all pairs for short lists, random pairs otherwise
        let nvs = views.len();
        let mut vp = vec![];
        for i in 0..nvs {
            for j in 0..nvs {
                vp.push((i, j));
            }
        }
        if vp.len() > 60 {
            let mut sel = vec![(0, 1), (1, 0), (0, 0)];
            for _ in 0..57 {
                sel.push(*rng.pick(&vp));
            }
            vp = sel;
        }
        for (i, j) in vp {
            out.lines.push(format!("veq v{} v{}", views[i].0, views[j].0));
        }
    }
    out.lines
}

/// C16: serialisation round trips and rejection of malformed input
pub fn gen_serde(seed: u64, tier: &str) -> Vec<String> {
    let mut rng = Rng::new(seed ^ 0xC16);
    let mut out: Vec<String> = vec![];
    header(&mut out);
    let mut case = 0usize;
    let nasty = ["q\"uote", "back\\slash", "nl\nt\tr\r", "ctl\u{1}\u{1f}", "é→\u{1F600}", "", "plain", "a\u{7f}b", "\u{2028}sep"];
    let n = if tier == "thorough" { 3000 } else { 300 };
    for i in 0..n {
        // a tree with some nasty texts
        let mut pool = vec![];
        let (d, w) = (1 + rng.below(4), 1 + rng.below(4));
        let t = random_tree(&mut rng, d, w, &mut pool);
        fn spice(t: &RefTree, rng: &mut Rng, nasty: &[&str]) -> RefTree {
            match t {
                RefTree::Tok(k, s) => {
                    if !crate::gen::static_kind(*k) && rng.chance(1, 3) {
                        RefTree::Tok(*k, rng.pick(nasty).to_string())
                    } else {
                        RefTree::Tok(*k, s.clone())
                    }
                }
                RefTree::Node(k, cs) => RefTree::Node(*k, cs.iter().map(|c| spice(c, rng, nasty)).collect()),
            }
        }
        let t = if i % 3 == 0 { t } else { spice(&t, &mut rng, &nasty) };
        out.push(format!("case {}", case));
        case += 1;
        out.push("cache user".into());
        out.push("builder c0".into());
        emit_tree(&t, &mut out, &mut rng);
        out.push("finish".into());
        // number of nodes
        fn count_nodes(t: &RefTree) -> usize {
            match t {
                RefTree::Tok(..) => 0,
                RefTree::Node(_, cs) => 1 + cs.iter().map(count_nodes).sum::<usize>(),
            }
        }
        let nn = count_nodes(&t);
        for mode in ["plain", "resolver", "data", "data_resolver"] {
            let mut assigns = vec![];
            for j in 0..nn {
                if rng.chance(1, 3) {
                    assigns.push(format!("{}={}", j, rng.below(1000)));
                }
            }
            out.push(format!("ser {} g0 {}", mode, assigns.join(" ")).trim_end().to_string());
        }
    }
    // deep trees: the event stream is flat whatever the nesting, so no depth is special (a deserialiser with a depth limit of its
    // own -- 128 is the customary one -- would reject valid trees)
    let depths: &[usize] = if tier == "thorough" { &[64, 127, 128, 129, 130, 255, 256, 257, 600] } else { &[128, 129, 300] };
    for d in depths {
        let t = crate::gen::deep_tree(&mut rng, *d);
        out.push(format!("case {}", case));
        case += 1;
        out.push("cache user".into());
        out.push("builder c0".into());
        emit_tree(&t, &mut out, &mut rng);
        out.push("finish".into());
        for mode in ["plain", "resolver", "data", "data_resolver"] {
            out.push(format!("ser {} g0 0=1 {}={} {}={}", mode, d / 2, d, d, d + 1));
        }
    }
    // rejection: every event stream up to a length bound, with every data-list length
    let alphabet = ["E0.0", "E1.1", "T10:61", "L"];
    let maxlen = if tier == "thorough" { 6 } else { 4 };
    let maxdata = if tier == "thorough" { 3 } else { 2 };
    out.push(format!("case {}", case));
    case += 1;
    let mut count = 0usize;
    for len in 0..=maxlen {
        let total = alphabet.len().pow(len as u32);
        for code in 0..total {
            let mut c = code;
            let mut evs = vec![];
            for _ in 0..len {
                evs.push(alphabet[c % alphabet.len()]);
                c /= alphabet.len();
            }
            for nd in 0..=maxdata {
                let data: Vec<String> = (0..nd).map(|x| (x + 7).to_string()).collect();
                let route = ["str", "value", "reader", "slice"][count % 4];
                count += 1;
                if count % 400 == 0 {
                    out.push(format!("case {}", case));
                    case += 1;
                }
                out.push(format!("deser {} {};{}", route, evs.join(","), data.join(",")));
            }
        }
    }
    // corruptions that stay valid JSON
    out.push(format!("case {}", case));
    for raw in [
        "[]",
        "[[],[]]x",
        "{}",
        "[[{\"t\":\"EnterNode\",\"c\":[0,false]},{\"t\":\"LeaveNode\"}]]",
        "[[{\"t\":\"EnterNode\",\"c\":[0]},{\"t\":\"LeaveNode\"}],[]]",
        "[[{\"t\":\"EnterNode\",\"c\":[\"x\",false]},{\"t\":\"LeaveNode\"}],[]]",
        "[[{\"t\":\"Enter\",\"c\":[0,false]},{\"t\":\"LeaveNode\"}],[]]",
        "[[{\"t\":\"EnterNode\",\"c\":[0,false]},{\"t\":\"Token\",\"c\":[10,5]},{\"t\":\"LeaveNode\"}],[]]",
        "[[{\"t\":\"EnterNode\",\"c\":[0,true]},{\"t\":\"LeaveNode\"}],[\"x\"]]",
        "[[{\"t\":\"EnterNode\",\"c\":[0,false]},{\"t\":\"LeaveNode\"}],[],[]]",
        "[[{\"c\":[0,false]},{\"t\":\"LeaveNode\"}],[]]",
        "[[{\"t\":\"EnterNode\",\"c\":[4294967296,false]},{\"t\":\"LeaveNode\"}],[]]",
    ] {
        for route in ["str", "value"] {
            out.push(format!("deser_raw {} {}", route, hex(raw)));
        }
    }
    out
}
