//! Green area (C15, C14 helpers): direct construction, equality, hashing, child iterators.
use crate::area_builder::{dump_green, BuilderArea, RefTree};
use crate::interp::Ctx;
use crate::util::*;
use cstree::build::NodeCache;
use cstree::green::{GreenNode, GreenToken};
use cstree::util::NodeOrToken;
use std::hash::{Hash, Hasher};

#[derive(Clone)]
pub enum GEl {
    N(GreenNode),
    T(GreenToken),
}

struct Rec(Vec<u64>);
impl Hasher for Rec {
    fn finish(&self) -> u64 {
        0
    }
    fn write(&mut self, _b: &[u8]) {}
    fn write_u32(&mut self, i: u32) {
        self.0.push(i as u64);
    }
    fn write_isize(&mut self, i: isize) {
        self.0.push(i as u64);
    }
    fn write_usize(&mut self, i: usize) {
        self.0.push(i as u64);
    }
    fn write_u64(&mut self, i: u64) {
        self.0.push(i);
    }
}

fn show(e: NodeOrToken<&GreenNode, &GreenToken>) -> String {
    match e {
        NodeOrToken::Node(n) => format!("N:{}:{}", n.kind().0, u32::from(n.text_len())),
        NodeOrToken::Token(t) => format!("T:{}:{}", t.kind().0, u32::from(t.text_len())),
    }
}
fn show_opt(e: Option<NodeOrToken<&GreenNode, &GreenToken>>) -> String {
    e.map(show).unwrap_or_else(|| "none".into())
}

impl BuilderArea {
    pub fn elem_at(&self, r: &str) -> Option<(GEl, usize, Option<RefTree>)> {
        let mut parts = r.split('.');
        let root = parts.next()?.strip_prefix('g')?.parse::<usize>().ok()?;
        let (g, slot, _) = self.greens.get(root)?;
        let mut cur = GEl::N(g.clone());
        let mut rt = self.reftrees.get(root).cloned().flatten();
        for p in parts {
            let i = p.parse::<usize>().ok()?;
            let next = match &cur {
                GEl::N(n) => match n.children().nth(i)? {
                    NodeOrToken::Node(c) => GEl::N(c.clone()),
                    NodeOrToken::Token(t) => GEl::T(t.clone()),
                },
                GEl::T(_) => return None,
            };
            rt = match rt {
                Some(RefTree::Node(_, cs)) => cs.get(i).cloned(),
                _ => None,
            };
            cur = next;
        }
        Some((cur, *slot, rt))
    }

    pub fn green_step(&mut self, ws: &[&str], cx: &mut Ctx<'_>) -> Option<String> {
        let ans = match ws {
            ["gnew", k, refs @ ..] => {
                let Ok(k) = k.parse::<u32>() else { return Some("bad-op".into()) };
                let mut els = vec![];
                let mut rts = vec![];
                let mut slot = 0;
                for r in refs.iter() {
                    match self.elem_at(r) {
                        Some((e, s, rt)) => {
                            els.push(e);
                            rts.push(rt);
                            slot = s;
                        }
                        None => return Some("bad-op".into()),
                    }
                }
                let children: Vec<NodeOrToken<GreenNode, GreenToken>> = els
                    .into_iter()
                    .map(|e| match e {
                        GEl::N(n) => NodeOrToken::Node(n),
                        GEl::T(t) => NodeOrToken::Token(t),
                    })
                    .collect();
                let g = GreenNode::new(cstree::RawSyntaxKind(k), children);
                let Some(cache) = self.caches.get(slot).and_then(|c| c.as_ref()) else { return Some("bad-op".into()) };
                let d = dump_green(&g, cache.interner());
                let rt = if rts.iter().all(|r| r.is_some()) {
                    Some(RefTree::Node(k, rts.into_iter().map(|r| r.unwrap()).collect()))
                } else {
                    None
                };
                if let Some(rt) = &rt {
                    if rt.dump() != d {
                        cx.fail("C15", format!("GreenNode::new gives {} for children of {}", d, rt.dump()));
                    }
                    let mut want = String::new();
                    rt.text(&mut want);
                    if u32::from(g.text_len()) as usize != want.len() {
                        cx.fail("C15", format!("text_len {:?} of {} != {}", g.text_len(), d, want.len()));
                    }
                }
                cx.count("op.gnew");
                let n = self.greens.len();
                self.greens.push((g, slot, d.clone()));
                self.reftrees.push(rt);
                format!("g{} {}", n, d)
            }
            ["geq", a, b] => match (self.elem_at(a), self.elem_at(b)) {
                (Some((x, sx, rx)), Some((y, sy, ry))) => {
                    let eq = match (&x, &y) {
                        (GEl::N(p), GEl::N(q)) => p == q,
                        (GEl::T(p), GEl::T(q)) => p == q,
                        _ => false,
                    };
                    // symmetric
                    let eq2 = match (&y, &x) {
                        (GEl::N(p), GEl::N(q)) => p == q,
                        (GEl::T(p), GEl::T(q)) => p == q,
                        _ => false,
                    };
                    if eq != eq2 {
                        cx.fail("C15", format!("== is not symmetric on {} {}", a, b));
                    }
                    cx.count("op.geq");
                    if sx == sy {
                        if let (Some(rx), Some(ry)) = (rx, ry) {
                            let want = rx == ry;
                            if want {
                                cx.count("geq.equal_pairs");
                            } else {
                                cx.count("geq.unequal_pairs");
                            }
                            cx.nontrivial();
                            if want != eq {
                                cx.fail("C15", format!("{} == {} is {} but the trees are {} / {}", a, b, eq, rx.dump(), ry.dump()));
                            }
                            if want {
                                // equal trees hash equally (std's default hasher)
                                let hx = {
                                    let mut h = std::collections::hash_map::DefaultHasher::new();
                                    match &x {
                                        GEl::N(p) => p.hash(&mut h),
                                        GEl::T(p) => p.hash(&mut h),
                                    };
                                    h.finish()
                                };
                                let hy = {
                                    let mut h = std::collections::hash_map::DefaultHasher::new();
                                    match &y {
                                        GEl::N(p) => p.hash(&mut h),
                                        GEl::T(p) => p.hash(&mut h),
                                    };
                                    h.finish()
                                };
                                if hx != hy {
                                    cx.fail("C15", format!("equal trees {} {} hash differently", a, b));
                                }
                            }
                        }
                    }
                    eq.to_string()
                }
                _ => "bad-op".into(),
            },
            ["ghash", a] => match self.elem_at(a) {
                Some((x, _, _)) => {
                    let mut r = Rec(vec![]);
                    match &x {
                        GEl::N(p) => p.hash(&mut r),
                        GEl::T(p) => p.hash(&mut r),
                    }
                    cx.count("op.ghash");
                    r.0.iter().map(|w| w.to_string()).collect::<Vec<_>>().join(",")
                }
                None => "bad-op".into(),
            },
            ["iter", a, ops @ ..] => match self.elem_at(a) {
                Some((GEl::N(n), _, _)) => {
                    cx.count("op.iter");
                    let all: Vec<String> = n.children().map(show).collect();
                    let mut front = 0usize; // reference cursor over `all`
                    let mut back = all.len();
                    let mut it = n.children();
                    let mut out = vec![];
                    let refget = |i: usize, all: &Vec<String>| all[i].clone();
                    let mut done = false;
                    for (j, op) in ops.iter().enumerate() {
                        if done {
                            break;
                        }
                        let parts: Vec<&str> = op.split(':').collect();
                        let (got, want) = match parts.as_slice() {
                            ["next"] => {
                                let w = if front < back { front += 1; refget(front - 1, &all) } else { "none".into() };
                                (show_opt(it.next()), w)
                            }
                            ["next_back"] => {
                                let w = if front < back { back -= 1; refget(back, &all) } else { "none".into() };
                                (show_opt(it.next_back()), w)
                            }
                            ["nth", k] => {
                                let k: usize = k.parse().unwrap_or(0);
                                let w = if front + k < back { front += k + 1; refget(front - 1, &all) } else { front = back; "none".into() };
                                (show_opt(it.nth(k)), w)
                            }
                            ["nth_back", k] => {
                                let k: usize = k.parse().unwrap_or(0);
                                let w = if front + k < back { back -= k + 1; refget(back, &all) } else { back = front; "none".into() };
                                (show_opt(it.nth_back(k)), w)
                            }
                            ["len"] => (it.len().to_string(), (back - front).to_string()),
                            ["size_hint"] => {
                                let (lo, hi) = it.size_hint();
                                (format!("{},{}", lo, hi.map(|h| h.to_string()).unwrap_or("none".into())), format!("{},{}", back - front, back - front))
                            }
                            ["count"] => {
                                done = true;
                                (it.clone().count().to_string(), (back - front).to_string())
                            }
                            ["last"] => {
                                done = true;
                                (show_opt(it.clone().last()), if front < back { refget(back - 1, &all) } else { "none".into() })
                            }
                            ["fold"] => {
                                done = true;
                                let v = it.clone().fold(vec![], |mut acc: Vec<String>, e| { acc.push(show(e)); acc });
                                (v.join(","), all[front..back].join(","))
                            }
                            ["rfold"] => {
                                done = true;
                                let v = it.clone().rfold(vec![], |mut acc: Vec<String>, e| { acc.push(show(e)); acc });
                                let mut w: Vec<String> = all[front..back].to_vec();
                                w.reverse();
                                (v.join(","), w.join(","))
                            }
                            _ => ("bad-op".to_string(), "bad-op".to_string()),
                        };
                        if got != want {
                            cx.fail("C15", format!("child iterator op #{} `{}` on {} gave {} but a plain sequence gives {}", j, op, a, got, want));
                        }
                        if all.len() >= 2 {
                            cx.nontrivial();
                        }
                        out.push(got);
                    }
                    out.join(" | ")
                }
                Some((GEl::T(_), _, _)) => "".into(),
                None => "bad-op".into(),
            },
            ["recache", c] => {
                let slot = c.strip_prefix('c').and_then(|s| s.parse::<usize>().ok());
                match slot {
                    Some(slot) if slot < self.caches.len() && self.caches[slot].is_some() => {
                        let cache = self.caches[slot].take().unwrap();
                        let interner = cache.into_interner().expect("owned interner");
                        self.caches[slot] = Some(NodeCache::from_interner(interner));
                        self.forget_sharing(slot);
                        "ok".into()
                    }
                    _ => "bad-op".into(),
                }
            }
            _ => {
                let r = self.red_step(ws, cx);
                if r.is_some() {
                    self.count_oracle(cx);
                }
                return r;
            }
        };
        Some(ans)
    }
}
