//! Plain-Rust reference for the red layer: an arena with parent links and byte spans, and every
//! navigation operation defined directly on the tree structure (the implementation-side oracle
//! for C02, C03, C13, C14, C19; independent of the Lean model).
use crate::area_builder::RefTree;

#[derive(Clone, Debug)]
pub struct RNode {
    pub kind:     u32,
    pub text:     Option<String>, // Some = token
    pub children: Vec<usize>,
    pub parent:   Option<usize>,
    pub idx:      usize,
    pub start:    usize,
    pub end:      usize,
    pub depth:    usize,
}

#[derive(Clone, Debug, Default)]
pub struct Arena {
    pub nodes: Vec<RNode>,
}

impl Arena {
    pub fn build(t: &RefTree) -> Arena {
        let mut a = Arena::default();
        let mut off = 0;
        a.add(t, None, 0, &mut off, 0);
        a
    }
    fn add(&mut self, t: &RefTree, parent: Option<usize>, idx: usize, off: &mut usize, depth: usize) -> usize {
        let id = self.nodes.len();
        match t {
            RefTree::Tok(k, s) => {
                self.nodes.push(RNode {
                    kind: *k,
                    text: Some(s.clone()),
                    children: vec![],
                    parent,
                    idx,
                    start: *off,
                    end: *off + s.len(),
                    depth,
                });
                *off += s.len();
            }
            RefTree::Node(k, cs) => {
                self.nodes.push(RNode { kind: *k, text: None, children: vec![], parent, idx, start: *off, end: *off, depth });
                let mut kids = vec![];
                for (i, c) in cs.iter().enumerate() {
                    kids.push(self.add(c, Some(id), i, off, depth + 1));
                }
                self.nodes[id].children = kids;
                self.nodes[id].end = *off;
            }
        }
        id
    }
    pub fn is_tok(&self, i: usize) -> bool {
        self.nodes[i].text.is_some()
    }
    pub fn text_of(&self, i: usize, out: &mut String) {
        match &self.nodes[i].text {
            Some(s) => out.push_str(s),
            None => {
                for c in self.nodes[i].children.clone() {
                    self.text_of(c, out)
                }
            }
        }
    }
    pub fn parent(&self, i: usize) -> Option<usize> {
        self.nodes[i].parent
    }
    pub fn ancestors(&self, i: usize) -> Vec<usize> {
        let mut v = vec![];
        let mut cur = if self.is_tok(i) { self.parent(i) } else { Some(i) };
        while let Some(c) = cur {
            v.push(c);
            cur = self.parent(c);
        }
        v
    }
    pub fn kids(&self, i: usize, with_tokens: bool) -> Vec<usize> {
        self.nodes[i].children.iter().cloned().filter(|c| with_tokens || !self.is_tok(*c)).collect()
    }
    pub fn sibs_after(&self, i: usize, with_tokens: bool) -> Vec<usize> {
        match self.parent(i) {
            Some(p) => self.nodes[p].children[self.nodes[i].idx + 1..]
                .iter()
                .cloned()
                .filter(|c| with_tokens || !self.is_tok(*c))
                .collect(),
            None => vec![],
        }
    }
    pub fn sibs_before(&self, i: usize, with_tokens: bool) -> Vec<usize> {
        match self.parent(i) {
            Some(p) => self.nodes[p].children[..self.nodes[i].idx]
                .iter()
                .rev()
                .cloned()
                .filter(|c| with_tokens || !self.is_tok(*c))
                .collect(),
            None => vec![],
        }
    }
    /// `(enter?, id)` events of the sub-tree
    pub fn preorder(&self, i: usize, with_tokens: bool, out: &mut Vec<(bool, usize)>) {
        out.push((true, i));
        for c in self.nodes[i].children.clone() {
            if with_tokens || !self.is_tok(c) {
                self.preorder(c, with_tokens, out);
            }
        }
        out.push((false, i));
    }
    pub fn tokens(&self, i: usize, out: &mut Vec<usize>) {
        if self.is_tok(i) {
            out.push(i);
        } else {
            for c in self.nodes[i].children.clone() {
                self.tokens(c, out);
            }
        }
    }
    pub fn root_tokens(&self) -> Vec<usize> {
        let mut v = vec![];
        self.tokens(0, &mut v);
        v
    }
    /// tokens with non-empty text containing `off` in their closed range, inside sub-tree `i`
    pub fn tokens_at(&self, i: usize, off: usize) -> Vec<usize> {
        let mut v = vec![];
        self.tokens(i, &mut v);
        v.into_iter()
            .filter(|t| self.nodes[*t].start != self.nodes[*t].end && self.nodes[*t].start <= off && off <= self.nodes[*t].end)
            .collect()
    }
    /// deepest element (first in source order among equals) whose range contains `[a, b]`,
    /// following the documented descent: from `i`, repeatedly step into the first child that
    /// contains the range
    pub fn covering(&self, i: usize, a: usize, b: usize) -> usize {
        let mut cur = i;
        loop {
            let next = self.nodes[cur].children.iter().cloned().find(|c| self.nodes[*c].start <= a && b <= self.nodes[*c].end);
            match next {
                Some(c) => cur = c,
                None => return cur,
            }
        }
    }
    pub fn to_tree(&self, i: usize) -> RefTree {
        match &self.nodes[i].text {
            Some(s) => RefTree::Tok(self.nodes[i].kind, s.clone()),
            None => RefTree::Node(self.nodes[i].kind, self.nodes[i].children.iter().map(|c| self.to_tree(*c)).collect()),
        }
    }
    /// the tree with element `i` replaced by `new`
    pub fn subst(&self, at: usize, i: usize, new: &RefTree) -> RefTree {
        if at == i {
            return new.clone();
        }
        match &self.nodes[at].text {
            Some(s) => RefTree::Tok(self.nodes[at].kind, s.clone()),
            None => RefTree::Node(self.nodes[at].kind, self.nodes[at].children.iter().map(|c| self.subst(*c, i, new)).collect()),
        }
    }

    /// reference result of a navigation operation from element `x`
    pub fn nav(&self, x: usize, ws: &[&str]) -> Option<Nav2> {
        let a = self;
        let first = |v: Vec<usize>| Nav2::Opt(v.first().cloned());
        Some(match ws {
            ["parent"] => Nav2::Opt(a.parent(x)),
            ["root"] => Nav2::Opt(Some(0)),
            ["ancestors"] => Nav2::List(a.ancestors(x)),
            ["first_child"] => first(a.kids(x, false)),
            ["first_child_or_token"] => first(a.kids(x, true)),
            ["last_child"] => Nav2::Opt(a.kids(x, false).last().cloned()),
            ["last_child_or_token"] => Nav2::Opt(a.kids(x, true).last().cloned()),
            ["next_sibling"] => first(a.sibs_after(x, false)),
            ["next_sibling_or_token"] => first(a.sibs_after(x, true)),
            ["prev_sibling"] => first(a.sibs_before(x, false)),
            ["prev_sibling_or_token"] => first(a.sibs_before(x, true)),
            ["next_child_after", i, _] => {
                let i: usize = i.parse().ok()?;
                Nav2::Opt(a.nodes[x].children.iter().cloned().skip(i + 1).find(|c| !a.is_tok(*c)))
            }
            ["next_child_or_token_after", i, _] => {
                let i: usize = i.parse().ok()?;
                Nav2::Opt(a.nodes[x].children.get(i + 1).cloned())
            }
            ["prev_child_before", i, _] => {
                let i: usize = i.parse().ok()?;
                Nav2::Opt(a.nodes[x].children.iter().cloned().take(i).rev().find(|c| !a.is_tok(*c)))
            }
            ["prev_child_or_token_before", i, _] => {
                let i: usize = i.parse().ok()?;
                Nav2::Opt(if i == 0 { None } else { a.nodes[x].children.get(i - 1).cloned() })
            }
            ["children"] => Nav2::List(a.kids(x, false)),
            ["children_with_tokens"] => Nav2::List(a.kids(x, true)),
            ["siblings", d] => {
                let mut v = vec![x];
                v.extend(if *d == "next" { a.sibs_after(x, false) } else { a.sibs_before(x, false) });
                Nav2::List(v)
            }
            ["siblings_with_tokens", d] => {
                let mut v = vec![x];
                v.extend(if *d == "next" { a.sibs_after(x, true) } else { a.sibs_before(x, true) });
                Nav2::List(v)
            }
            ["descendants"] => {
                let mut ev = vec![];
                a.preorder(x, false, &mut ev);
                Nav2::List(ev.into_iter().filter(|e| e.0).map(|e| e.1).collect())
            }
            ["descendants_with_tokens"] => {
                let mut ev = vec![];
                a.preorder(x, true, &mut ev);
                Nav2::List(ev.into_iter().filter(|e| e.0).map(|e| e.1).collect())
            }
            ["preorder"] => {
                let mut ev = vec![];
                a.preorder(x, false, &mut ev);
                Nav2::Walk(ev)
            }
            ["preorder_with_tokens"] => {
                let mut ev = vec![];
                a.preorder(x, true, &mut ev);
                Nav2::Walk(ev)
            }
            ["first_token"] => {
                let mut v = vec![];
                a.tokens(x, &mut v);
                first(v)
            }
            ["last_token"] => {
                let mut v = vec![];
                a.tokens(x, &mut v);
                Nav2::Opt(v.last().cloned())
            }
            ["next_token"] => {
                let all = a.root_tokens();
                let i = all.iter().position(|t| *t == x)?;
                Nav2::Opt(all.get(i + 1).cloned())
            }
            ["prev_token"] => {
                let all = a.root_tokens();
                let i = all.iter().position(|t| *t == x)?;
                Nav2::Opt(if i == 0 { None } else { Some(all[i - 1]) })
            }
            ["arity"] => Nav2::Num(a.kids(x, false).len()),
            ["arity_with_tokens"] => Nav2::Num(a.kids(x, true).len()),
            _ => return None,
        })
    }

}

pub enum Nav2 {
    Opt(Option<usize>),
    List(Vec<usize>),
    Walk(Vec<(bool, usize)>),
    Num(usize),
}
