//! Interner area (C10): every back end and wrapper behind `BoxI`, raw key conversion.
use crate::interp::{Area, Ctx};
use crate::util::*;
use cstree::interning::{InternKey, Interner, Resolver, TokenKey};

#[derive(Default)]
pub struct InternArea {
    interners: Vec<BoxI>,
    /// oracle: per interner, raw key -> string as first issued
    issued:    Vec<Vec<(u32, String)>>,
    by_raw:    Vec<std::collections::HashMap<u32, String>>,
    by_str:    Vec<std::collections::HashMap<String, u32>>,
}

impl Area for InternArea {
    fn reset_case(&mut self) {
        *self = InternArea::default();
    }

    fn step(&mut self, ws: &[&str], cx: &mut Ctx<'_>) -> Option<String> {
        let ans = match ws {
            ["interner", backend] => match make_interner(backend) {
                Some(i) => {
                    self.interners.push(i);
                    self.issued.push(vec![]);
                    self.by_raw.push(Default::default());
                    self.by_str.push(Default::default());
                    cx.count(&format!("backend.{}", backend));
                    format!("i{}", self.interners.len() - 1)
                }
                None => "bad-op".into(),
            },
            ["intern", iref, h] | ["intern_nt", iref, h] => {
                let i = iref.strip_prefix('i').and_then(|s| s.parse::<usize>().ok());
                match (i, unhex(h)) {
                    (Some(i), Some(text)) if i < self.interners.len() => {
                        let int = &mut self.interners[i];
                        // alternate between the fallible and the panicking entry point
                        let use_try = ws[0] == "intern";
                        let r: Result<Result<TokenKey, String>, String> = if use_try {
                            catch(|| int.try_get_or_intern(&text))
                        } else {
                            catch(|| Ok(int.get_or_intern(&text))).or_else(|_| Ok(Err("panic".into())))
                        };
                        cx.count("op.intern");
                        if text.is_empty() {
                            cx.count("intern.empty");
                        }
                        if text.len() != text.chars().count() {
                            cx.count("intern.multibyte");
                        }
                        match r {
                            Ok(Ok(key)) => {
                                let raw = key.into_u32();
                                // oracle: resolve(intern(s)) == s, same key iff same string, stability
                                match catch(|| int.try_resolve(key).map(|s| s.to_string())) {
                                    Ok(Some(s)) if s == text => {}
                                    other => cx.fail("C10", format!("resolve(intern({})) = {:?}", hex(&text), other)),
                                }
                                let iss = &mut self.issued[i];
                                // same key iff same string (against everything issued so far; indexed both ways)
                                let by_raw = &mut self.by_raw[i];
                                let by_str = &mut self.by_str[i];
                                match (by_raw.get(&raw), by_str.get(&text)) {
                                    (Some(s0), _) if *s0 != text => {
                                        cx.fail("C10", format!("keys {} / {} for strings {} / {}", raw, raw, hex(s0), hex(&text)))
                                    }
                                    (_, Some(r0)) if *r0 != raw => {
                                        cx.fail("C10", format!("keys {} / {} for strings {} / {}", r0, raw, hex(&text), hex(&text)))
                                    }
                                    _ => {}
                                }
                                if by_raw.contains_key(&raw) {
                                    cx.count("intern.repeat");
                                    cx.nontrivial();
                                } else {
                                    iss.push((raw, text.clone()));
                                    by_raw.insert(raw, text.clone());
                                    by_str.insert(text.clone(), raw);
                                }
                                // stability: every key issued so far still resolves to its string (all of them while
                                // the table is small, a spread sample plus the oldest and newest ones afterwards)
                                let n = iss.len();
                                let idxs: Vec<usize> = if n <= 600 {
                                    (0..n).collect()
                                } else {
                                    let mut v: Vec<usize> = (0..8).chain(n - 8..n).collect();
                                    let mut x = (raw as usize).wrapping_mul(2654435761) ^ n;
                                    for _ in 0..16 {
                                        x = x.wrapping_mul(6364136223846793005).wrapping_add(1442695040888963407);
                                        v.push((x >> 20) % n);
                                    }
                                    v
                                };
                                for ix in idxs {
                                    let (r0, s0) = &iss[ix];
                                    let k0 = TokenKey::try_from_u32(*r0).unwrap();
                                    let now = catch(|| int.resolve(k0).to_string());
                                    if now.as_deref() != Ok(s0.as_str()) {
                                        cx.fail("C10", format!("key {} no longer resolves to {}", r0, hex(s0)));
                                    }
                                }
                                format!("key {}", raw)
                            }
                            Ok(Err(_)) => {
                                cx.count("intern.err");
                                cx.nontrivial();
                                // an error is only specified when the key space of the back end is used up
                                let cap: u64 = match self.interners[i].backend.as_str() {
                                    "rodeo_micro" => 255,
                                    "rodeo_mini" => 65535,
                                    _ => u32::MAX as u64 - 1,
                                };
                                let used = self.issued[i].len() as u64;
                                if used < cap && !self.by_str[i].contains_key(&text) {
                                    cx.fail("C10", format!("interning {} failed although only {} of {} keys are in use", hex(&text), used, cap));
                                }
                                "err".into()
                            }
                            Err(_) => {
                                cx.fail("C10", format!("try_get_or_intern({}) panicked", hex(&text)));
                                "panic".into()
                            }
                        }
                    }
                    _ => "bad-op".into(),
                }
            }
            ["resolve", iref, raw] => {
                let i = iref.strip_prefix('i').and_then(|s| s.parse::<usize>().ok());
                match (i, raw.parse::<u32>()) {
                    (Some(i), Ok(raw)) if i < self.interners.len() => match TokenKey::try_from_u32(raw) {
                        Some(k) => {
                            let int = &self.interners[i];
                            cx.count("op.resolve");
                            match catch(|| int.try_resolve(k).map(|s| s.to_string())) {
                                Ok(Some(s)) => hex(&s),
                                Ok(None) => "none".into(),
                                Err(_) => {
                                    cx.fail("C10", format!("try_resolve({}) panicked", raw));
                                    "panic".into()
                                }
                            }
                        }
                        None => "none".into(),
                    },
                    _ => "bad-op".into(),
                }
            }
            ["rawkey", raw] => match raw.parse::<u32>() {
                Ok(raw) => {
                    cx.count("op.rawkey");
                    match TokenKey::try_from_u32(raw) {
                        Some(k) => {
                            // `Debug` shows the stored non-zero value
                            let dbg = format!("{:?}", k);
                            let inner = dbg.trim_start_matches("TokenKey(").trim_end_matches(')').to_string();
                            let back = k.into_u32();
                            if back != raw {
                                cx.fail("C10", format!("raw {} round-trips to {}", raw, back));
                            }
                            if raw == u32::MAX {
                                cx.fail("C10", "u32::MAX accepted as raw key".into());
                            }
                            cx.nontrivial();
                            format!("key {} {}", inner, back)
                        }
                        None => {
                            if raw != u32::MAX {
                                cx.fail("C10", format!("valid raw {} rejected", raw));
                            }
                            cx.nontrivial();
                            "none".into()
                        }
                    }
                }
                _ => "bad-op".into(),
            },
            ["usizekey", n] => match n.parse::<u128>() {
                Ok(n) => usize_key(n, cx),
                _ => "bad-op".into(),
            },
            _ => return None,
        };
        Some(ans)
    }
}

#[cfg(feature = "lasso")]
fn usize_key(n: u128, cx: &mut Ctx<'_>) -> String {
    use cstree::interning::lasso::Key;
    if n > usize::MAX as u128 {
        return "none".into();
    }
    cx.count("op.usizekey");
    match <TokenKey as Key>::try_from_usize(n as usize) {
        Some(k) => {
            let dbg = format!("{:?}", k);
            let inner = dbg.trim_start_matches("TokenKey(").trim_end_matches(')').to_string();
            if Key::into_usize(k) != n as usize {
                cx.fail("C10", format!("usize {} round-trips to {}", n, Key::into_usize(k)));
            }
            format!("key {}", inner)
        }
        None => "none".into(),
    }
}
#[cfg(not(feature = "lasso"))]
fn usize_key(_n: u128, _cx: &mut Ctx<'_>) -> String {
    "bad-op".into()
}
