//! Interner area (C10): every back end and wrapper behind `BoxI`, raw key conversion.
use crate::interp::{Area, Ctx};
use crate::util::*;
use cstree::interning::{InternKey, Interner, Resolver, TokenKey};

#[derive(Default)]
pub struct InternArea {
    interners: Vec<BoxI>,
    /// oracle: per interner, raw key -> string as first issued
    issued:    Vec<Vec<(u32, String)>>,
}

impl Area for InternArea {
    fn reset_case(&mut self) {
        *self = InternArea::default();
    }

    fn step(&mut self, ws: &[&str], cx: &mut Ctx<'_>) -> Option<String> {
        let ans = match ws {
            ["interner", backend] => match make_interner(backend) {
                Some(i) => {
                    self.interners.push(i);
                    self.issued.push(vec![]);
                    cx.count(&format!("backend.{}", backend));
                    format!("i{}", self.interners.len() - 1)
                }
                None => "bad-op".into(),
            },
            ["intern", iref, h] | ["intern_nt", iref, h] => {
                let i = iref.strip_prefix('i').and_then(|s| s.parse::<usize>().ok());
                match (i, unhex(h)) {
                    (Some(i), Some(text)) if i < self.interners.len() => {
                        let int = &mut self.interners[i];
                        // alternate between the fallible and the panicking entry point
                        let use_try = ws[0] == "intern";
                        let r: Result<Result<TokenKey, String>, String> = if use_try {
                            catch(|| int.try_get_or_intern(&text))
                        } else {
                            catch(|| Ok(int.get_or_intern(&text))).or_else(|_| Ok(Err("panic".into())))
                        };
                        cx.count("op.intern");
                        if text.is_empty() {
                            cx.count("intern.empty");
                        }
                        if text.len() != text.chars().count() {
                            cx.count("intern.multibyte");
                        }
                        match r {
                            Ok(Ok(key)) => {
                                let raw = key.into_u32();
                                // oracle: resolve(intern(s)) == s, same key iff same string, stability
                                match catch(|| int.try_resolve(key).map(|s| s.to_string())) {
                                    Ok(Some(s)) if s == text => {}
                                    other => cx.fail("C10", format!("resolve(intern({})) = {:?}", hex(&text), other)),
                                }
                                let iss = &mut self.issued[i];
                                for (r0, s0) in iss.iter() {
                                    if (*r0 == raw) != (*s0 == text) {
                                        cx.fail(
                                            "C10",
                                            format!("keys {} / {} for strings {} / {}", r0, raw, hex(s0), hex(&text)),
                                        );
                                    }
                                }
                                if iss.iter().any(|(r0, _)| *r0 == raw) {
                                    cx.count("intern.repeat");
                                    cx.nontrivial();
                                } else {
                                    iss.push((raw, text.clone()));
                                }
                                for (r0, s0) in iss.iter() {
                                    let k0 = TokenKey::try_from_u32(*r0).unwrap();
                                    let now = catch(|| int.resolve(k0).to_string());
                                    if now.as_deref() != Ok(s0.as_str()) {
                                        cx.fail("C10", format!("key {} no longer resolves to {}", r0, hex(s0)));
                                    }
                                }
                                format!("key {}", raw)
                            }
                            Ok(Err(_)) => {
                                cx.count("intern.err");
                                cx.nontrivial();
                                "err".into()
                            }
                            Err(_) => {
                                cx.fail("C10", format!("try_get_or_intern({}) panicked", hex(&text)));
                                "panic".into()
                            }
                        }
                    }
                    _ => "bad-op".into(),
                }
            }
            ["resolve", iref, raw] => {
                let i = iref.strip_prefix('i').and_then(|s| s.parse::<usize>().ok());
                match (i, raw.parse::<u32>()) {
                    (Some(i), Ok(raw)) if i < self.interners.len() => match TokenKey::try_from_u32(raw) {
                        Some(k) => {
                            let int = &self.interners[i];
                            cx.count("op.resolve");
                            match catch(|| int.try_resolve(k).map(|s| s.to_string())) {
                                Ok(Some(s)) => hex(&s),
                                Ok(None) => "none".into(),
                                Err(_) => {
                                    cx.fail("C10", format!("try_resolve({}) panicked", raw));
                                    "panic".into()
                                }
                            }
                        }
                        None => "none".into(),
                    },
                    _ => "bad-op".into(),
                }
            }
            ["rawkey", raw] => match raw.parse::<u32>() {
                Ok(raw) => {
                    cx.count("op.rawkey");
                    match TokenKey::try_from_u32(raw) {
                        Some(k) => {
                            // `Debug` shows the stored non-zero value
                            let dbg = format!("{:?}", k);
                            let inner = dbg.trim_start_matches("TokenKey(").trim_end_matches(')').to_string();
                            let back = k.into_u32();
                            if back != raw {
                                cx.fail("C10", format!("raw {} round-trips to {}", raw, back));
                            }
                            if raw == u32::MAX {
                                cx.fail("C10", "u32::MAX accepted as raw key".into());
                            }
                            cx.nontrivial();
                            format!("key {} {}", inner, back)
                        }
                        None => {
                            if raw != u32::MAX {
                                cx.fail("C10", format!("valid raw {} rejected", raw));
                            }
                            cx.nontrivial();
                            "none".into()
                        }
                    }
                }
                _ => "bad-op".into(),
            },
            ["usizekey", n] => match n.parse::<u128>() {
                Ok(n) => usize_key(n, cx),
                _ => "bad-op".into(),
            },
            _ => return None,
        };
        Some(ans)
    }
}

#[cfg(feature = "lasso")]
fn usize_key(n: u128, cx: &mut Ctx<'_>) -> String {
    use cstree::interning::lasso::Key;
    if n > usize::MAX as u128 {
        return "none".into();
    }
    cx.count("op.usizekey");
    match <TokenKey as Key>::try_from_usize(n as usize) {
        Some(k) => {
            let dbg = format!("{:?}", k);
            let inner = dbg.trim_start_matches("TokenKey(").trim_end_matches(')').to_string();
            if Key::into_usize(k) != n as usize {
                cx.fail("C10", format!("usize {} round-trips to {}", n, Key::into_usize(k)));
            }
            format!("key {}", inner)
        }
        None => "none".into(),
    }
}
#[cfg(not(feature = "lasso"))]
fn usize_key(_n: u128, _cx: &mut Ctx<'_>) -> String {
    "bad-op".into()
}
