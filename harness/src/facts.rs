//! `harness facts --out FILE`: the facts of the slot / counter / lock protocol as *observed* on instrumented
//! executions (a fall-back for the pattern-based translator: when a source pattern no longer matches, the value the
//! running code exhibits is used instead).  Every value is only reported when all explored executions agree on it.
use crate::conc::*;
use crate::sched::*;
use crate::util::*;
use cstree::verif::{LockKind, Note, Point, RmwSite};
use std::collections::{BTreeSet, HashMap};

#[derive(Default)]
struct Acc {
    clone: BTreeSet<i64>,
    drop: BTreeSet<i64>,
    loser_node: BTreeSet<i64>,
    loser_tok: BTreeSet<i64>,
    teardown_prev: BTreeSet<i64>,
    read_modes: BTreeSet<bool>,
    write_modes: BTreeSet<bool>,
    teardown_modes: BTreeSet<bool>,
    install_ok: bool,
    installs: usize,
    losses: usize,
    data: HashMap<String, BTreeSet<Vec<bool>>>,
    root_last: bool,
    children_first: bool,
    no_leak: bool,
    teardowns: usize,
}

fn analyse(e: &Exec, nthreads: usize, a: &mut Acc) {
    let mut cur: i64 = 1;
    let mut pending: HashMap<usize, RmwSite> = HashMap::new();
    // per event index: value of the counter before a completed decrement
    let mut dec_prev: HashMap<usize, i64> = HashMap::new();
    let mut last_slot_mode: HashMap<usize, bool> = HashMap::new();
    let mut filled: HashMap<(usize, usize), bool> = HashMap::new();
    let mut data_modes: HashMap<usize, Vec<bool>> = HashMap::new();
    for (ix, (t, ev)) in e.trace.iter().enumerate() {
        match ev {
            Ev::Point(PointKind::Hook(Point::Rmw { site })) => {
                pending.insert(*t, *site);
            }
            Ev::Point(PointKind::Hook(Point::Lock { what: LockKind::Slot, write, .. })) => {
                last_slot_mode.insert(*t, *write);
            }
            Ev::Point(PointKind::Hook(Point::Lock { what: LockKind::Data, write, .. })) => {
                data_modes.entry(*t).or_default().push(*write);
            }
            Ev::Op(s) => {
                let kind = s.split(' ').next().unwrap_or("");
                if matches!(kind, "set" | "tryset" | "get" | "clear") {
                    a.data.entry(kind.to_string()).or_default().insert(data_modes.remove(t).unwrap_or_default());
                }
                data_modes.remove(t);
            }
            Ev::Note(Note::RmwDone { now }) => {
                let now_i = *now as i64;
                // the counter wraps below zero during the teardown
                let mut delta = now_i - cur.rem_euclid(1 << 32);
                if delta > (1 << 31) {
                    delta -= 1 << 32;
                }
                if delta < -(1 << 31) {
                    delta += 1 << 32;
                }
                match pending.remove(t) {
                    Some(RmwSite::Clone) => {
                        a.clone.insert(delta);
                    }
                    Some(RmwSite::Drop) => {
                        a.drop.insert(-delta);
                        dec_prev.insert(ix, cur);
                    }
                    Some(RmwSite::LoserNode) => {
                        a.loser_node.insert(delta);
                    }
                    Some(RmwSite::LoserToken) => {
                        a.loser_tok.insert(delta);
                    }
                    None => {}
                }
                cur += delta;
            }
            Ev::Note(Note::SlotHit { .. }) | Ev::Note(Note::SlotMiss { .. }) => {
                if let Some(m) = last_slot_mode.get(t) {
                    a.read_modes.insert(*m);
                }
            }
            Ev::Note(Note::Installed { node, index }) => {
                if let Some(m) = last_slot_mode.get(t) {
                    a.write_modes.insert(*m);
                }
                a.installs += 1;
                if filled.insert((*node, *index), true) == Some(true) {
                    a.install_ok = false;
                }
            }
            Ev::Note(Note::Lost { node, index }) => {
                if let Some(m) = last_slot_mode.get(t) {
                    a.write_modes.insert(*m);
                }
                a.losses += 1;
                if filled.get(&(*node, *index)) != Some(&true) {
                    a.install_ok = false;
                }
            }
            Ev::Note(Note::Free { count_cell: true, .. }) => {
                // the teardown: back to the thread's last operation, then forward to its first slot lock / free
                let mine: Vec<usize> = (0..ix).rev().take_while(|j| !(e.trace[*j].0 == *t && matches!(e.trace[*j].1, Ev::Op(_)))).filter(|j| e.trace[*j].0 == *t).collect();
                let mine: Vec<usize> = mine.into_iter().rev().collect();
                let first = mine.iter().position(|j| {
                    matches!(e.trace[*j].1, Ev::Note(Note::Free { .. }) | Ev::Point(PointKind::Hook(Point::Lock { what: LockKind::Slot, .. })))
                });
                let upto = first.unwrap_or(mine.len());
                if let Some(trigger) = mine[..upto].iter().rev().find(|j| dec_prev.contains_key(j)) {
                    a.teardown_prev.insert(dec_prev[trigger]);
                    a.teardowns += 1;
                    for j in mine.iter().filter(|j| **j > *trigger) {
                        if let Ev::Point(PointKind::Hook(Point::Lock { what: LockKind::Slot, write, .. })) = &e.trace[*j].1 {
                            a.teardown_modes.insert(*write);
                        }
                    }
                }
            }
            _ => {}
        }
    }
    if e.violations.iter().any(|(_, w)| w.contains("never freed")) {
        a.no_leak = false;
    }
    // the order of the frees of the teardown
    for l in monitor_lines(e, nthreads) {
        let ws: Vec<&str> = l.split(' ').collect();
        if ws.len() == 5 && ws[2] == "tear" {
            let mut parent: HashMap<String, String> = HashMap::new();
            if ws[3] != "-" {
                for x in ws[3].split(',') {
                    let p: Vec<&str> = x.split(':').collect();
                    if p.len() == 3 {
                        parent.insert(p[0].to_string(), p[1].to_string());
                    }
                }
            }
            let evs: Vec<&str> = ws[4].split(',').collect();
            let n = evs.len();
            if n < 2 || evs[n - 1] != "fc" || evs[n - 2] != "fr" || evs.iter().filter(|x| **x == "fr" || **x == "fc").count() != 2 {
                a.root_last = false;
            }
            let pos: HashMap<&str, usize> = evs.iter().enumerate().filter(|(_, x)| x.starts_with('f') && **x != "fr" && **x != "fc").map(|(i, x)| (&x[1..], i)).collect();
            for (s, i) in &pos {
                if let Some(p) = parent.get(*s) {
                    if let Some(pi) = pos.get(p.as_str()) {
                        if pi < i {
                            a.children_first = false;
                        }
                    }
                }
            }
        }
    }
}

fn one<T: Copy + Ord>(s: &BTreeSet<T>) -> Option<T> {
    if s.len() == 1 {
        s.iter().next().copied()
    } else {
        None
    }
}

/// the largest number of children with which a node is still answered from the cache
fn observe_threshold() -> Option<u64> {
    use cstree::build::{GreenNodeBuilder, NodeCache};
    use cstree::util::NodeOrToken;
    let mut best: Option<u64> = None;
    let mut cache: NodeCache<'static> = NodeCache::new();
    for n in 0..=8u32 {
        let mut b: GreenNodeBuilder<'_, '_, K> = GreenNodeBuilder::with_cache(&mut cache);
        b.start_node(K(0));
        for _ in 0..2 {
            b.start_node(K(1 + n));
            for _ in 0..n {
                b.token(K(10), "a");
            }
            b.finish_node();
        }
        b.finish_node();
        let (g, _) = b.finish();
        let kids: Vec<usize> = g.children().filter_map(|c| match c { NodeOrToken::Node(x) => Some(x.verif_addr()), _ => None }).collect();
        if kids.len() == 2 && kids[0] == kids[1] {
            best = Some(n as u64);
        } else if best.is_some() {
            // shared up to n - 1, not any more at n: monotone from here on (checked below)
        }
    }
    best
}

/// with every child hash forced to collide: are two different child lists still told apart?
fn observe_compares_children() -> Option<bool> {
    use cstree::build::{GreenNodeBuilder, NodeCache};
    cstree::verif::set_hash_mask(0);
    let mut cache: NodeCache<'static> = NodeCache::new();
    let mut b: GreenNodeBuilder<'_, '_, K> = GreenNodeBuilder::with_cache(&mut cache);
    b.start_node(K(0));
    for t in ["a", "b", "a"] {
        b.start_node(K(1));
        b.token(K(10), t);
        b.finish_node();
    }
    b.finish_node();
    let (g, _) = b.finish();
    cstree::verif::set_hash_mask(u32::MAX);
    let red: cstree::syntax::SyntaxNode<K> = cstree::syntax::SyntaxNode::new_root(g);
    let text = red.resolve_text(cache.interner()).to_string();
    Some(text == "aba")
}

/// the abbreviation of long token texts in the debug form: (threshold, first candidate cut, one past the last)
fn observe_debug_window() -> (Option<u64>, Option<u64>, Option<u64>) {
    use cstree::build::GreenNodeBuilder;
    let dbg = |text: &str| -> Option<String> {
        let mut b: GreenNodeBuilder<'static, 'static, K> = GreenNodeBuilder::new();
        b.start_node(K(0));
        b.token(K(10), text);
        b.finish_node();
        let (g, c) = b.finish();
        let i = c.unwrap().into_interner().unwrap();
        let red: cstree::syntax::SyntaxNode<K> = cstree::syntax::SyntaxNode::new_root(g);
        let t = red.first_token()?.clone();
        catch(|| t.debug(&i)).ok()
    };
    let mut thr = None;
    let mut lo = None;
    for len in 0..=60usize {
        let text = "x".repeat(len);
        match dbg(&text) {
            Some(d) => {
                if !d.contains(&format!("\"{}\"", text)) {
                    thr = Some(len as u64);
                    // all-ASCII: every index is a boundary, the cut is the first candidate
                    lo = d.find('"').map(|q| d[q + 1..].chars().take_while(|c| *c == 'x').count() as u64);
                    break;
                }
            }
            None => return (None, None, None),
        }
    }
    // the window has to reach a boundary whatever the alignment: four-byte characters behind 0..3 one-byte ones
    let mut all_ok = thr.is_some();
    for pre in 0..4usize {
        for len in [24usize, 25, 26, 27, 28, 29, 30, 40] {
            let mut text = "x".repeat(pre);
            while text.len() < len {
                text.push('\u{1F600}');
            }
            if dbg(&text).is_none() {
                all_ok = false;
            }
        }
    }
    let hi = if all_ok { lo.map(|l| l + 4) } else { None };
    (thr, lo, hi)
}

pub fn observe(out: &str) {
    quiet_panics();
    clear_statics();
    for (k, t) in crate::gen::STATICS {
        set_static(k, t);
    }
    let trees = conc_trees();
    let n = |s: &'static str| Op::Nav(s);
    let progs: Vec<(usize, Prog, bool)> = vec![
        (0, vec![vec![n("fc")], vec![n("fc")]], false),
        (0, vec![vec![Op::Child(1)], vec![Op::Child(1)]], false),
        (0, vec![vec![n("fcn"), n("fc")], vec![n("fcn"), n("fc")]], true),
        (3, vec![vec![n("lcn"), n("lcn")], vec![n("lcn"), n("fcn")]], false),
        (3, vec![vec![n("lt"), n("pt")], vec![n("ft"), n("nt")]], true),
        (0, vec![vec![Op::Dup, n("fc"), Op::Pop], vec![n("fc"), Op::Reset]], true),
        (0, vec![vec![Op::Set(1), Op::TrySet(2), Op::Get, Op::Clear, Op::TrySet(3), Op::Get]], false),
        (0, vec![vec![Op::Set(1), Op::Get], vec![Op::TrySet(2), Op::Clear]], false),
    ];
    let mut a = Acc { install_ok: true, root_last: true, children_first: true, no_leak: true, ..Default::default() };
    let mut execs = 0usize;
    for (ti, prog, root_first) in &progs {
        let nthreads = prog.len();
        explore(&trees[*ti], prog, *root_first, 2, 120, &mut |e: Exec| {
            analyse(&e, nthreads, &mut a);
            execs += 1;
        });
    }
    let data_mode = |k: &str| -> Option<Vec<bool>> {
        a.data.get(k).and_then(|s| if s.len() == 1 { s.iter().next().cloned() } else { None })
    };
    let is_w = |k: &str| -> serde_json::Value {
        match data_mode(k) {
            Some(v) => serde_json::json!(v == vec![true]),
            None => serde_json::Value::Null,
        }
    };
    let all_one = ["set", "tryset", "get", "clear"].iter().map(|k| data_mode(k)).collect::<Option<Vec<_>>>().map(|v| v.iter().all(|m| m.len() == 1));
    let thr = observe_threshold();
    let cmp = observe_compares_children();
    let (dthr, dlo, dhi) = observe_debug_window();
    let j = serde_json::json!({
        "executions": execs,
        "installs": a.installs, "losses": a.losses, "teardowns": a.teardowns,
        "facts": {
            "cloneAmount": one(&a.clone),
            "dropAmount": one(&a.drop),
            "loserNodeComp": one(&a.loser_node),
            "loserTokenComp": one(&a.loser_tok),
            "teardownWhenPrev": one(&a.teardown_prev),
            "slotReadUnderReadLock": one(&a.read_modes).map(|w| !w),
            "slotWriteUnderWriteLock": one(&a.write_modes),
            "teardownUnderWriteLock": one(&a.teardown_modes),
            "slotInstallOnlyIfEmpty": if a.installs > 0 && a.losses > 0 { Some(a.install_ok) } else { None },
            "dataSetW": is_w("set"), "dataTrySetW": is_w("tryset"), "dataGetW": is_w("get"), "dataClearW": is_w("clear"),
            "dataOneSectionPerOp": all_one,
            "teardownRootLast": if a.teardowns > 0 { Some(a.root_last) } else { None },
            "teardownChildrenFirst": if a.teardowns > 0 { Some(a.children_first) } else { None },
            "teardownLoopsAllSlots": if a.teardowns > 0 { Some(a.no_leak) } else { None },
            "childrenCacheThreshold": thr,
            "nodeCacheComparesChildren": cmp,
            "debugAbbrevThreshold": dthr, "debugWindowLo": dlo, "debugWindowHi": dhi,
        }
    });
    std::fs::write(out, serde_json::to_string_pretty(&j).unwrap() + "\n").unwrap();
}
