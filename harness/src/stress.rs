//! C10, concurrent part: free-running threads intern overlapping vocabularies into one thread-safe interner.
//! Oracle (implementation side): every key a thread is handed resolves -- at once, through `try_resolve` and
//! `resolve` -- to the string just interned; all threads agree on one key per string and one string per key; every
//! key still resolves after all threads are done.  Model side: the strings in the order of their keys are a
//! sequential history of first interns; the model, given that history, must hand out the same keys.
use crate::util::*;
#[allow(unused_imports)]
use cstree::interning::{InternKey, Interner, Resolver, TokenKey};

#[allow(dead_code)]
fn vocab(v: usize, k: usize) -> String {
    match k % 5 {
        0 => format!("w{}", k % v),
        1 => format!("é{}→", k % v),
        2 => format!("{}", k % v),
        3 => format!("日本{}", k % v),
        _ => {
            if k % v == 4 {
                String::new()
            } else {
                format!("identifier_{}", k % v)
            }
        }
    }
}

#[cfg(feature = "lasso")]
trait Shared: Send + Sync {
    fn intern(&self, s: &str, fallible: bool) -> Result<TokenKey, String>;
    fn try_res(&self, k: TokenKey) -> Option<String>;
    fn res(&self, k: TokenKey) -> String;
}

#[cfg(feature = "lasso")]
struct MtArc(std::sync::Arc<cstree::interning::MultiThreadedTokenInterner>);
#[cfg(feature = "lasso")]
impl Shared for MtArc {
    fn intern(&self, s: &str, fallible: bool) -> Result<TokenKey, String> {
        let mut a = self.0.clone();
        if fallible {
            a.try_get_or_intern(s).map_err(|e| format!("{:?}", e))
        } else {
            Ok(a.get_or_intern(s))
        }
    }
    fn try_res(&self, k: TokenKey) -> Option<String> {
        self.0.try_resolve(k).map(|s| s.to_string())
    }
    fn res(&self, k: TokenKey) -> String {
        self.0.resolve(k).to_string()
    }
}

#[cfg(feature = "lasso")]
struct RodeoRef(&'static cstree::interning::lasso::ThreadedRodeo<cstree::interning::lasso::Spur>);
#[cfg(feature = "lasso")]
impl Shared for RodeoRef {
    fn intern(&self, s: &str, fallible: bool) -> Result<TokenKey, String> {
        let mut r = self.0;
        if fallible {
            Interner::try_get_or_intern(&mut r, s).map_err(|e| format!("{:?}", e))
        } else {
            Ok(Interner::get_or_intern(&mut r, s))
        }
    }
    fn try_res(&self, k: TokenKey) -> Option<String> {
        Resolver::try_resolve(self.0, k).map(|s| s.to_string())
    }
    fn res(&self, k: TokenKey) -> String {
        Resolver::resolve(self.0, k).to_string()
    }
}

#[cfg(feature = "lasso")]
struct TokenKeyRodeo(&'static cstree::interning::lasso::ThreadedRodeo<TokenKey>);
#[cfg(feature = "lasso")]
impl Shared for TokenKeyRodeo {
    fn intern(&self, s: &str, fallible: bool) -> Result<TokenKey, String> {
        let mut r = self.0;
        if fallible {
            Interner::try_get_or_intern(&mut r, s).map_err(|e| format!("{:?}", e))
        } else {
            Ok(Interner::get_or_intern(&mut r, s))
        }
    }
    fn try_res(&self, k: TokenKey) -> Option<String> {
        Resolver::try_resolve(self.0, k).map(|s| s.to_string())
    }
    fn res(&self, k: TokenKey) -> String {
        Resolver::resolve(self.0, k).to_string()
    }
}

pub fn run(seed: u64, tier: &str, outdir: &str) {
    quiet_panics();
    let mut ops: Vec<String> = vec![];
    let mut imp: Vec<String> = vec![];
    let mut oracle: Vec<String> = vec![];
    let mut dist: std::collections::BTreeMap<String, u64> = Default::default();
    let mut nontrivial: Vec<usize> = vec![];
    #[allow(unused_mut)]
    let mut case = 0usize;
    let _ = (seed, tier);
    #[cfg(feature = "lasso")]
    {
        let thorough = tier == "thorough";
        let mut rng = Rng::new(seed ^ 0xC10C);
        // (vocabulary size, replayed through the model?)
        let mut rounds: Vec<(usize, bool)> = vec![(300, true), (1500, true), (40000, false), (40000, false)];
        if thorough {
            rounds.extend([(1500, true), (3000, true), (200000, false), (200000, false), (200000, false)]);
        }
        for backend in ["lasso_mt_arc", "threaded_spur_ref", "threaded_tokenkey_ref"] {
            for (ri, (v, modelled)) in rounds.iter().enumerate() {
                let nthreads = [2usize, 4, 8, 8, 3, 6, 8, 8, 8][ri % 9];
                let sh: std::sync::Arc<dyn Shared> = match backend {
                    "lasso_mt_arc" => std::sync::Arc::new(MtArc(std::sync::Arc::new(cstree::interning::new_threaded_interner()))),
                    "threaded_spur_ref" => std::sync::Arc::new(RodeoRef(Box::leak(Box::new(cstree::interning::lasso::ThreadedRodeo::new())))),
                    _ => std::sync::Arc::new(TokenKeyRodeo(Box::leak(Box::new(cstree::interning::lasso::ThreadedRodeo::new())))),
                };
                let salt = rng.next() as usize;
                let descr = format!("concurrent interning: backend={} threads={} vocabulary={} salt={} (each thread interns, in turn, a string of its own and the next one of the shared vocabulary from its own starting point, alternating try_get_or_intern / get_or_intern, and resolves every key at once)", backend, nthreads, v, salt);
                let first_line = ops.len() + 1;
                ops.push(format!("case {}", case));
                imp.push(format!("case {}", case));
                ops.push(format!("note {}", hex(&descr)));
                imp.push("ok".into());
                let v = *v;
                let barrier = std::sync::Arc::new(std::sync::Barrier::new(nthreads));
                let mut handles = vec![];
                for t in 0..nthreads {
                    let sh = sh.clone();
                    let barrier = barrier.clone();
                    handles.push(std::thread::spawn(move || {
                        let mut seen: Vec<(String, u32)> = Vec::with_capacity(v);
                        let mut bad: Vec<String> = vec![];
                        barrier.wait();
                        for i in 0..v {
                            // all threads sweep the vocabulary in the same direction from nearby starting points: they keep
                            // meeting at strings one of them is just interning
                            let k = (i + t * 3 + salt) % v;
                            // every other string is the thread's own: several threads are adding *different* strings at the same
                            // moment (keys are drawn before the strings become visible)
                            let s = if i % 2 == 0 { format!("t{}-\u{e4}\u{1F600}-{}", t, i) } else { vocab(v, k) };
                            let r = catch(|| sh.intern(&s, (i + t) % 2 == 0));
                            match r {
                                Ok(Ok(key)) => {
                                    match catch(|| sh.try_res(key)) {
                                        Ok(Some(x)) if x == s => {}
                                        other => bad.push(format!("try_resolve of the key {} just returned for {} gives {:?}", key.into_u32(), hex(&s), other)),
                                    }
                                    match catch(|| sh.res(key)) {
                                        Ok(x) if x == s => {}
                                        other => bad.push(format!("resolve of the key {} just returned for {} gives {:?}", key.into_u32(), hex(&s), other)),
                                    }
                                    seen.push((s, key.into_u32()));
                                }
                                Ok(Err(e)) => bad.push(format!("interning {} failed: {}", hex(&s), e)),
                                Err(m) => bad.push(format!("interning {} panicked: {}", hex(&s), m)),
                            }
                        }
                        (seen, bad)
                    }));
                }
                let mut by_str: std::collections::HashMap<String, u32> = Default::default();
                let mut by_key: std::collections::HashMap<u32, String> = Default::default();
                let mut fails: Vec<String> = vec![];
                let mut total = 0u64;
                for h in handles {
                    match h.join() {
                        Ok((seen, bad)) => {
                            for b in bad.into_iter().take(3) {
                                fails.push(b);
                            }
                            for (s, k) in seen {
                                total += 1;
                                match by_str.get(&s) {
                                    Some(k0) if *k0 != k => fails.push(format!("two keys {} / {} for the string {}", k0, k, hex(&s))),
                                    _ => {
                                        by_str.insert(s.clone(), k);
                                    }
                                }
                                match by_key.get(&k) {
                                    Some(s0) if *s0 != s => fails.push(format!("one key {} for the strings {} / {}", k, hex(s0), hex(&s))),
                                    _ => {
                                        by_key.insert(k, s);
                                    }
                                }
                            }
                        }
                        Err(_) => fails.push("an interning thread panicked".into()),
                    }
                }
                // stability after the fact
                for (k, s) in by_key.iter() {
                    let key = TokenKey::try_from_u32(*k).unwrap();
                    match catch(|| sh.try_res(key)) {
                        Ok(Some(x)) if x == *s => {}
                        other => {
                            fails.push(format!("key {} resolves to {:?} afterwards, not to {}", k, other, hex(s)));
                            break;
                        }
                    }
                }
                *dist.entry(format!("backend.{}", backend)).or_insert(0) += 1;
                *dist.entry(format!("threads.{}", nthreads)).or_insert(0) += 1;
                *dist.entry("op.intern".into()).or_insert(0) += total;
                *dist.entry("intern.distinct".into()).or_insert(0) += by_key.len() as u64;
                nontrivial.push(case);
                if *modelled {
                    // the sequential history of first interns, in key order
                    let mut hist: Vec<(u32, String)> = by_key.iter().map(|(k, s)| (*k, s.clone())).collect();
                    hist.sort();
                    let model_backend = if backend == "threaded_tokenkey_ref" { "lasso_mt" } else { backend };
                    ops.push(format!("interner {}", model_backend));
                    imp.push("i0".into());
                    for (k, s) in &hist {
                        ops.push(format!("intern i0 {}", hex(s)));
                        imp.push(format!("key {}", k));
                    }
                    // and once more: now every string is known
                    for (k, s) in hist.iter().take(50) {
                        ops.push(format!("intern_nt i0 {}", hex(s)));
                        imp.push(format!("key {}", k));
                    }
                    *dist.entry("modelled_histories".into()).or_insert(0) += 1;
                }
                fails.dedup();
                for f in fails.into_iter().take(5) {
                    oracle.push(format!("{}\t{}\tC10\t{}", case, first_line, f.replace('\n', " ").replace('\t', " ")));
                }
                case += 1;
            }
        }
    }
    std::fs::create_dir_all(outdir).unwrap();
    std::fs::write(format!("{}/ops.txt", outdir), if ops.is_empty() { String::new() } else { ops.join("\n") + "\n" }).unwrap();
    std::fs::write(format!("{}/impl.txt", outdir), if imp.is_empty() { String::new() } else { imp.join("\n") + "\n" }).unwrap();
    std::fs::write(format!("{}/oracle.txt", outdir), if oracle.is_empty() { String::new() } else { oracle.join("\n") + "\n" }).unwrap();
    let d = serde_json::json!({ "dist": dist, "cases": case, "nontrivial_cases": nontrivial,
        "debug_build": cfg!(debug_assertions), "lasso_build": cfg!(feature = "lasso") });
    std::fs::write(format!("{}/dist.json", outdir), d.to_string() + "\n").unwrap();
}
