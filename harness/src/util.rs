//! Shared helpers: hex codec, PRNG, the table-driven `Syntax`, panic capture, interner back ends.
use cstree::interning::{Interner, Resolver, TokenKey};
use cstree::{RawSyntaxKind, Syntax};
use std::fmt;
use std::panic::{catch_unwind, AssertUnwindSafe};
use std::sync::RwLock;

pub fn hex(s: &str) -> String {
    if s.is_empty() {
        return "-".to_string();
    }
    let mut out = String::with_capacity(s.len() * 2);
    for b in s.bytes() {
        out.push_str(&format!("{:02x}", b));
    }
    out
}

pub fn unhex(h: &str) -> Option<String> {
    if h == "-" {
        return Some(String::new());
    }
    if h.len() % 2 != 0 {
        return None;
    }
    let mut bytes = Vec::with_capacity(h.len() / 2);
    let hb = h.as_bytes();
    for i in (0..hb.len()).step_by(2) {
        let s = std::str::from_utf8(&hb[i..i + 2]).ok()?;
        bytes.push(u8::from_str_radix(s, 16).ok()?);
    }
    String::from_utf8(bytes).ok()
}

/// splitmix64 — every random choice of the harness derives from one of these
#[derive(Clone)]
pub struct Rng(pub u64);
impl Rng {
    pub fn new(seed: u64) -> Self {
        Rng(seed.wrapping_mul(0x9E3779B97F4A7C15).wrapping_add(0x1234567))
    }
    pub fn next(&mut self) -> u64 {
        self.0 = self.0.wrapping_add(0x9E3779B97F4A7C15);
        let mut z = self.0;
        z = (z ^ (z >> 30)).wrapping_mul(0xBF58476D1CE4E5B9);
        z = (z ^ (z >> 27)).wrapping_mul(0x94D049BB133111EB);
        z ^ (z >> 31)
    }
    pub fn below(&mut self, n: usize) -> usize {
        if n == 0 {
            0
        } else {
            (self.next() % n as u64) as usize
        }
    }
    pub fn chance(&mut self, num: usize, den: usize) -> bool {
        self.below(den) < num
    }
    pub fn pick<'a, T>(&mut self, xs: &'a [T]) -> &'a T {
        &xs[self.below(xs.len())]
    }
}

// ---------------------------------------------------------------------------------------------
// table-driven syntax: kinds are free u32s, static texts come from `syn` lines of the session

static STATICS: RwLock<Vec<(u32, &'static str)>> = RwLock::new(Vec::new());

/// every static text ever used, so that re-running a session does not leak again
static LEAKED: RwLock<Vec<&'static str>> = RwLock::new(Vec::new());

pub fn set_static(kind: u32, text: &str) {
    let known = LEAKED.read().unwrap().iter().find(|s| **s == text).copied();
    let leaked: &'static str = match known {
        Some(s) => s,
        None => {
            let s: &'static str = Box::leak(text.to_string().into_boxed_str());
            LEAKED.write().unwrap().push(s);
            s
        }
    };
    let mut t = STATICS.write().unwrap();
    t.retain(|(k, _)| *k != kind);
    t.push((kind, leaked));
}
pub fn unset_static(kind: u32) {
    STATICS.write().unwrap().retain(|(k, _)| *k != kind);
}
pub fn clear_statics() {
    STATICS.write().unwrap().clear();
}
pub fn static_of(kind: u32) -> Option<&'static str> {
    STATICS.read().unwrap().iter().find(|(k, _)| *k == kind).map(|(_, t)| *t)
}

#[derive(Clone, Copy, PartialEq, Eq, Hash, PartialOrd, Ord)]
pub struct K(pub u32);
impl fmt::Debug for K {
    fn fmt(&self, f: &mut fmt::Formatter<'_>) -> fmt::Result {
        write!(f, "K{}", self.0)
    }
}
impl Syntax for K {
    fn from_raw(raw: RawSyntaxKind) -> Self {
        K(raw.0)
    }
    fn into_raw(self) -> RawSyntaxKind {
        RawSyntaxKind(self.0)
    }
    fn static_text(self) -> Option<&'static str> {
        static_of(self.0)
    }
}

// ---------------------------------------------------------------------------------------------
// counting allocator (allocation-level oracle: net bytes after everything is dropped)

pub struct Counting;
pub static LIVE: std::sync::atomic::AtomicIsize = std::sync::atomic::AtomicIsize::new(0);
unsafe impl std::alloc::GlobalAlloc for Counting {
    unsafe fn alloc(&self, l: std::alloc::Layout) -> *mut u8 {
        LIVE.fetch_add(l.size() as isize, std::sync::atomic::Ordering::Relaxed);
        std::alloc::System.alloc(l)
    }
    unsafe fn dealloc(&self, p: *mut u8, l: std::alloc::Layout) {
        LIVE.fetch_sub(l.size() as isize, std::sync::atomic::Ordering::Relaxed);
        std::alloc::System.dealloc(p, l)
    }
    unsafe fn realloc(&self, p: *mut u8, l: std::alloc::Layout, new: usize) -> *mut u8 {
        LIVE.fetch_add(new as isize - l.size() as isize, std::sync::atomic::Ordering::Relaxed);
        std::alloc::System.realloc(p, l, new)
    }
}
pub fn live_bytes() -> isize {
    LIVE.load(std::sync::atomic::Ordering::Relaxed)
}

// ---------------------------------------------------------------------------------------------
// panic capture

pub fn quiet_panics() {
    std::panic::set_hook(Box::new(|_| {}));
}

pub fn catch<T>(f: impl FnOnce() -> T) -> Result<T, String> {
    match catch_unwind(AssertUnwindSafe(f)) {
        Ok(v) => Ok(v),
        Err(e) => {
            let msg = if let Some(s) = e.downcast_ref::<&str>() {
                s.to_string()
            } else if let Some(s) = e.downcast_ref::<String>() {
                s.clone()
            } else {
                "?".to_string()
            };
            Err(msg)
        }
    }
}

// ---------------------------------------------------------------------------------------------
// interner back ends behind one object-safe face; every trait method of the back end is reachable
// (the lasso shims override `get_or_intern`/`resolve` separately from the `try_` forms)

pub trait ObjInterner {
    fn o_try_intern(&mut self, s: &str) -> Result<TokenKey, String>;
    fn o_intern(&mut self, s: &str) -> TokenKey;
    fn o_try_resolve(&self, k: TokenKey) -> Option<&str>;
    fn o_resolve(&self, k: TokenKey) -> &str;
}

impl<T> ObjInterner for T
where
    T: Interner<TokenKey>,
    T::Error: fmt::Debug,
{
    fn o_try_intern(&mut self, s: &str) -> Result<TokenKey, String> {
        self.try_get_or_intern(s).map_err(|e| format!("{:?}", e))
    }
    fn o_intern(&mut self, s: &str) -> TokenKey {
        self.get_or_intern(s)
    }
    fn o_try_resolve(&self, k: TokenKey) -> Option<&str> {
        self.try_resolve(k)
    }
    fn o_resolve(&self, k: TokenKey) -> &str {
        self.resolve(k)
    }
}

/// The built-in interner used through `Arc<TokenInterner>`'s own `Resolver` impl (what a tree created with
/// `new_root_with_resolver(green, Arc::new(interner))` resolves through); interning goes through the unique `Arc`.
#[cfg(not(feature = "lasso"))]
pub struct ArcBuiltin(pub std::sync::Arc<cstree::interning::TokenInterner>);
#[cfg(not(feature = "lasso"))]
impl Resolver<TokenKey> for ArcBuiltin {
    fn try_resolve(&self, key: TokenKey) -> Option<&str> {
        <std::sync::Arc<cstree::interning::TokenInterner> as Resolver<TokenKey>>::try_resolve(&self.0, key)
    }
    fn resolve(&self, key: TokenKey) -> &str {
        <std::sync::Arc<cstree::interning::TokenInterner> as Resolver<TokenKey>>::resolve(&self.0, key)
    }
}
#[cfg(not(feature = "lasso"))]
impl Interner<TokenKey> for ArcBuiltin {
    type Error = <cstree::interning::TokenInterner as Interner<TokenKey>>::Error;

    fn try_get_or_intern(&mut self, text: &str) -> Result<TokenKey, Self::Error> {
        std::sync::Arc::get_mut(&mut self.0).expect("unique").try_get_or_intern(text)
    }
    fn get_or_intern(&mut self, text: &str) -> TokenKey {
        std::sync::Arc::get_mut(&mut self.0).expect("unique").get_or_intern(text)
    }
}

/// The interner type used by every builder of the harness: a boxed back end plus a fault switch
/// (this is also the "user supplied interner that fails on command" of C20).
pub struct BoxI {
    pub inner:     Box<dyn ObjInterner>,
    pub fail_next: bool,
    pub calls:     usize,
    pub backend:   String,
    /// `user_fwd`: the call already went through the reference forwarding
    pub in_ref:    bool,
}

impl fmt::Debug for BoxI {
    fn fmt(&self, f: &mut fmt::Formatter<'_>) -> fmt::Result {
        write!(f, "BoxI({})", self.backend)
    }
}

impl Resolver<TokenKey> for BoxI {
    fn try_resolve(&self, key: TokenKey) -> Option<&str> {
        self.inner.o_try_resolve(key)
    }
    fn resolve(&self, key: TokenKey) -> &str {
        self.inner.o_resolve(key)
    }
}

impl Interner<TokenKey> for BoxI {
    type Error = String;

    fn try_get_or_intern(&mut self, text: &str) -> Result<TokenKey, String> {
        if self.backend == "user_fwd" && !self.in_ref {
            self.in_ref = true;
            let r = {
                let mut v = ViaProvided(self);
                let mut r: &mut ViaProvided<'_> = &mut v;
                <&mut ViaProvided<'_> as Interner<TokenKey>>::try_get_or_intern(&mut r, text)
            };
            self.in_ref = false;
            return r;
        }
        self.calls += 1;
        if self.fail_next {
            self.fail_next = false;
            return Err("injected".to_string());
        }
        self.inner.o_try_intern(text)
    }
    fn get_or_intern(&mut self, text: &str) -> TokenKey {
        if self.backend == "user" {
            // a user-written interner implements `try_get_or_intern` only: go through the trait's *provided*
            // `get_or_intern`, so that what the crate does there (panic on the first error) is under test
            return ViaProvided(self).get_or_intern(text);
        }
        if self.backend == "user_fwd" {
            // the same interner handed over as `&mut I`: the crate's forwarding impl for mutable references sits
            // between the builder and the interner that fails on command
            let mut v = ViaProvided(self);
            let mut r: &mut ViaProvided<'_> = &mut v;
            return <&mut ViaProvided<'_> as Interner<TokenKey>>::get_or_intern(&mut r, text);
        }
        self.calls += 1;
        if self.fail_next {
            self.fail_next = false;
            panic!("failed to intern (injected)");
        }
        self.inner.o_intern(text)
    }
}

/// implements only the required method; `get_or_intern` is the trait's provided one
struct ViaProvided<'a>(&'a mut BoxI);
impl Resolver<TokenKey> for ViaProvided<'_> {
    fn try_resolve(&self, key: TokenKey) -> Option<&str> {
        self.0.try_resolve(key)
    }
}
impl Interner<TokenKey> for ViaProvided<'_> {
    type Error = String;

    fn try_get_or_intern(&mut self, text: &str) -> Result<TokenKey, String> {
        self.0.try_get_or_intern(text)
    }
}

/// A deliberately plain user-written interner.
#[derive(Default)]
pub struct UserInterner {
    strs: Vec<String>,
}
impl Resolver<TokenKey> for UserInterner {
    fn try_resolve(&self, key: TokenKey) -> Option<&str> {
        use cstree::interning::InternKey;
        self.strs.get(key.into_u32() as usize).map(|s| s.as_str())
    }
}
impl Interner<TokenKey> for UserInterner {
    type Error = String;
    fn try_get_or_intern(&mut self, text: &str) -> Result<TokenKey, String> {
        use cstree::interning::InternKey;
        let idx = match self.strs.iter().position(|s| s == text) {
            Some(i) => i,
            None => {
                self.strs.push(text.to_string());
                self.strs.len() - 1
            }
        };
        TokenKey::try_from_u32(idx as u32).ok_or_else(|| "keyspace".to_string())
    }
}

pub fn make_interner(backend: &str) -> Option<BoxI> {
    let inner: Box<dyn ObjInterner> = match backend {
        #[cfg(not(feature = "lasso"))]
        "builtin" => Box::new(cstree::interning::new_interner()),
        #[cfg(not(feature = "lasso"))]
        "mutref" => {
            let leaked: &'static mut cstree::interning::TokenInterner =
                Box::leak(Box::new(cstree::interning::new_interner()));
            Box::new(leaked)
        }
        #[cfg(not(feature = "lasso"))]
        "builtin_arc" => Box::new(ArcBuiltin(std::sync::Arc::new(cstree::interning::new_interner()))),
        "user" | "user_fwd" => Box::new(UserInterner::default()),
        #[cfg(feature = "lasso")]
        "lasso_token" => Box::new(cstree::interning::new_interner()),
        #[cfg(feature = "lasso")]
        "lasso_mt" => Box::new(cstree::interning::new_threaded_interner()),
        #[cfg(feature = "lasso")]
        "lasso_mt_arc" => Box::new(std::sync::Arc::new(cstree::interning::new_threaded_interner())),
        #[cfg(feature = "lasso")]
        "rodeo_spur" => Box::new(cstree::interning::lasso::Rodeo::<cstree::interning::lasso::Spur>::new()),
        #[cfg(feature = "lasso")]
        "rodeo_mini" => Box::new(cstree::interning::lasso::Rodeo::<cstree::interning::lasso::MiniSpur>::new()),
        #[cfg(feature = "lasso")]
        "rodeo_micro" => Box::new(cstree::interning::lasso::Rodeo::<cstree::interning::lasso::MicroSpur>::new()),
        #[cfg(feature = "lasso")]
        "threaded_spur" => {
            Box::new(cstree::interning::lasso::ThreadedRodeo::<cstree::interning::lasso::Spur>::new())
        }
        #[cfg(feature = "lasso")]
        "threaded_spur_ref" => {
            let leaked: &'static cstree::interning::lasso::ThreadedRodeo<cstree::interning::lasso::Spur> =
                Box::leak(Box::new(cstree::interning::lasso::ThreadedRodeo::new()));
            Box::new(leaked)
        }
        _ => return None,
    };
    Some(BoxI {
        inner,
        fail_next: false,
        calls: 0,
        backend: backend.to_string(),
        in_ref: false,
    })
}

pub fn backends() -> Vec<&'static str> {
    #[cfg(not(feature = "lasso"))]
    {
        vec!["builtin", "mutref", "builtin_arc", "user", "user_fwd"]
    }
    #[cfg(feature = "lasso")]
    {
        vec![
            "lasso_token",
            "lasso_mt",
            "lasso_mt_arc",
            "rodeo_spur",
            "rodeo_mini",
            "rodeo_micro",
            "threaded_spur",
            "threaded_spur_ref",
            "user",
            "user_fwd",
        ]
    }
}

/// A resolver that owns a snapshot of an interner's strings (for `new_root_with_resolver`).
#[derive(Debug, Clone)]
pub struct SnapResolver(pub Vec<String>);
impl Resolver<TokenKey> for SnapResolver {
    fn try_resolve(&self, key: TokenKey) -> Option<&str> {
        use cstree::interning::InternKey;
        self.0.get(key.into_u32() as usize).map(|s| s.as_str())
    }
}
pub fn snapshot(i: &BoxI) -> SnapResolver {
    use cstree::interning::InternKey;
    let mut v = Vec::new();
    let mut n = 0u32;
    while let Some(k) = TokenKey::try_from_u32(n) {
        match catch(|| i.try_resolve(k).map(|s| s.to_string())) {
            Ok(Some(s)) => v.push(s),
            _ => break,
        }
        n += 1;
    }
    SnapResolver(v)
}


/// probes used by the red area: an optional capability of an iterator type, and a kind type that remembers its thread
pub mod backprobe {
    use cstree::build::GreenNodeBuilder;
    use cstree::syntax::SyntaxNode;
    use cstree::{RawSyntaxKind, Syntax};

    pub struct Probe<I>(pub I);
    pub trait HasBack {
        type Item;
        fn probe_back(&mut self) -> Option<Option<Self::Item>>;
    }
    impl<I: DoubleEndedIterator> HasBack for Probe<I> {
        type Item = I::Item;
        fn probe_back(&mut self) -> Option<Option<I::Item>> {
            Some(self.0.next_back())
        }
    }
    pub trait NoBack {
        type Item;
        fn probe_back(&mut self) -> Option<Option<Self::Item>>;
    }
    impl<I: Iterator> NoBack for &mut Probe<I> {
        type Item = I::Item;
        fn probe_back(&mut self) -> Option<Option<I::Item>> {
            None
        }
    }

    fn tid() -> u64 {
        use std::sync::atomic::{AtomicU64, Ordering};
        static NEXT: AtomicU64 = AtomicU64::new(1);
        thread_local! { static ID: u64 = NEXT.fetch_add(1, Ordering::Relaxed); }
        ID.with(|x| *x)
    }

    #[derive(Clone, Copy, Debug, PartialEq, Eq)]
    pub struct Stamped {
        raw:     u32,
        made_on: u64,
    }
    impl Syntax for Stamped {
        fn from_raw(raw: RawSyntaxKind) -> Self {
            Stamped { raw: raw.0, made_on: tid() }
        }
        fn into_raw(self) -> RawSyntaxKind {
            RawSyntaxKind(self.raw)
        }
        fn static_text(self) -> Option<&'static str> {
            None
        }
    }

    /// every `kind()` a thread asks for must be a value made on that thread
    pub fn kind_stamp_probe() -> Option<String> {
        let mut b: GreenNodeBuilder<'static, 'static, Stamped> = GreenNodeBuilder::new();
        b.start_node(Stamped::from_raw(RawSyntaxKind(0)));
        b.token(Stamped::from_raw(RawSyntaxKind(10)), "a");
        b.start_node(Stamped::from_raw(RawSyntaxKind(1)));
        b.token(Stamped::from_raw(RawSyntaxKind(10)), "b");
        b.finish_node();
        b.finish_node();
        let (g, _) = b.finish();
        let root: SyntaxNode<Stamped> = SyntaxNode::new_root(g);
        let check = |root: &SyntaxNode<Stamped>, round: &str| -> Option<String> {
            let me = tid();
            for el in root.descendants_with_tokens() {
                let (k, what) = match el {
                    cstree::util::NodeOrToken::Node(n) => (n.kind(), "node"),
                    cstree::util::NodeOrToken::Token(t) => (t.kind(), "token"),
                };
                if k.made_on != me {
                    return Some(format!(
                        "{}: kind() of a {} (raw {}) asked on thread {} returned a value of the kind type that was made on thread {}: the tree keeps values of `S`, which the Send / Sync impls do not constrain",
                        round, what, k.raw, me, k.made_on
                    ));
                }
            }
            None
        };
        if let Some(m) = check(&root, "first pass, owning thread") {
            return Some(m);
        }
        let r = std::thread::scope(|s| s.spawn(|| check(&root, "second pass, another thread (shared by reference)")).join().unwrap());
        if r.is_some() {
            return r;
        }
        let moved = std::thread::spawn(move || check(&root, "third pass, a thread the tree was moved to")).join().unwrap();
        moved
    }
}
