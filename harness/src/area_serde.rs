//! Serde area (C16): the three serialisation forms, four deserialisation routes, rejection.
use crate::area_builder::{dump_green, BuilderArea, RefTree};
use crate::area_green::GEl;
use crate::interp::Ctx;
use crate::util::*;
use cstree::syntax::{ResolvedNode, SyntaxNode};
use serde_json::{json, Value};

/// protocol form of an event stream: `E<kind>.<0|1>`, `T<kind>:<hex>`, `L`
pub fn events_of_json(v: &Value) -> Option<(Vec<String>, Vec<String>)> {
    let arr = v.as_array()?;
    if arr.len() != 2 {
        return None;
    }
    let mut evs = vec![];
    for e in arr[0].as_array()? {
        let t = e.get("t")?.as_str()?;
        match t {
            "EnterNode" => {
                let c = e.get("c")?.as_array()?;
                evs.push(format!("E{}.{}", c[0].as_u64()?, if c[1].as_bool()? { 1 } else { 0 }));
            }
            "Token" => {
                let c = e.get("c")?.as_array()?;
                evs.push(format!("T{}:{}", c[0].as_u64()?, hex(c[1].as_str()?)));
            }
            "LeaveNode" => evs.push("L".into()),
            _ => return None,
        }
    }
    let data = arr[1].as_array()?.iter().map(|d| d.to_string()).collect();
    Some((evs, data))
}

pub fn json_of_events(evs: &[&str], data: &[&str]) -> Option<Value> {
    let mut out = vec![];
    for e in evs {
        if *e == "L" {
            out.push(json!({"t": "LeaveNode"}));
        } else if let Some(r) = e.strip_prefix('E') {
            let (k, f) = r.split_once('.')?;
            out.push(json!({"t": "EnterNode", "c": [k.parse::<u32>().ok()?, f == "1"]}));
        } else if let Some(r) = e.strip_prefix('T') {
            let (k, h) = r.split_once(':')?;
            out.push(json!({"t": "Token", "c": [k.parse::<u32>().ok()?, unhex(h)?]}));
        } else {
            return None;
        }
    }
    let d: Vec<Value> = data.iter().filter_map(|x| x.parse::<u32>().ok()).map(|x| json!(x)).collect();
    Some(json!([out, d]))
}

type Tree = ResolvedNode<K, u32>;

fn describe(t: &Tree) -> String {
    let d = dump_green(t.green(), &**t.resolver());
    let mut data = vec![];
    for (i, n) in t.descendants().enumerate() {
        if let Some(v) = n.get_data() {
            data.push(format!("{}={}", i, *v));
        }
    }
    format!("{} [{}]", d, data.join(","))
}

fn deser(route: &str, text: &str) -> Result<Result<String, String>, String> {
    catch(|| {
        let r: Result<Tree, String> = match route {
            "str" => serde_json::from_str::<Tree>(text).map_err(|e| e.to_string()),
            "slice" => serde_json::from_slice::<Tree>(text.as_bytes()).map_err(|e| e.to_string()),
            "reader" => serde_json::from_reader::<_, Tree>(std::io::Cursor::new(text.as_bytes().to_vec())).map_err(|e| e.to_string()),
            _ => serde_json::from_str::<Value>(text)
                .map_err(|e| e.to_string())
                .and_then(|v| serde_json::from_value::<Tree>(v).map_err(|e| e.to_string())),
        };
        r.map(|t| describe(&t))
    })
}

/// reference: is the event stream exactly one well-nested tree, and does the data list match?
fn reference(evs: &[&str], data: &[&str]) -> Option<String> {
    let mut stack: Vec<(u32, Vec<RefTree>)> = vec![];
    let mut roots: Vec<RefTree> = vec![];
    let mut flags = vec![];
    for e in evs {
        if *e == "L" {
            let (k, cs) = stack.pop()?;
            let n = RefTree::Node(k, cs);
            match stack.last_mut() {
                Some(top) => top.1.push(n),
                None => roots.push(n),
            }
        } else if let Some(r) = e.strip_prefix('E') {
            let (k, f) = r.split_once('.')?;
            if stack.is_empty() && !roots.is_empty() {
                return None;
            }
            flags.push(f == "1");
            stack.push((k.parse().ok()?, vec![]));
        } else if let Some(r) = e.strip_prefix('T') {
            let (k, h) = r.split_once(':')?;
            let k: u32 = k.parse().ok()?;
            let text = match static_of(k) {
                Some(s) => s.to_string(),
                None => unhex(h)?,
            };
            stack.last_mut()?.1.push(RefTree::Tok(k, text));
        }
    }
    if !stack.is_empty() || roots.len() != 1 {
        return None;
    }
    if flags.iter().filter(|f| **f).count() != data.len() {
        return None;
    }
    let mut it = data.iter();
    let mut d = vec![];
    for (i, f) in flags.iter().enumerate() {
        if *f {
            d.push(format!("{}={}", i, it.next()?));
        }
    }
    Some(format!("{} [{}]", roots[0].dump(), d.join(",")))
}

impl BuilderArea {
    pub fn serde_step(&mut self, ws: &[&str], cx: &mut Ctx<'_>) -> Option<String> {
        let ans = match ws {
            ["ser", mode, gref, assigns @ ..] => {
                let Some((GEl::N(g), slot, _)) = self.elem_at(gref) else { return Some("bad-op".into()) };
                let Some(cache) = self.caches.get(slot).and_then(|c| c.as_ref()) else { return Some("bad-op".into()) };
                let snap = snapshot(cache.interner());
                let tree: Tree = SyntaxNode::new_root_with_resolver(g, snap.clone());
                for a in assigns {
                    let Some((i, v)) = a.split_once('=') else { return Some("bad-op".into()) };
                    let (Ok(i), Ok(v)) = (i.parse::<usize>(), v.parse::<u32>()) else { return Some("bad-op".into()) };
                    if let Some(n) = tree.descendants().nth(i) {
                        n.set_data(v);
                    }
                }
                cx.count(&format!("ser.{}", mode));
                // one handle, serialised several times into different sinks: serialising is a pure function of the tree
                fn several<T: serde::Serialize>(h: &T) -> Result<String, String> {
                    let a = serde_json::to_string(h).map_err(|e| e.to_string())?;
                    let b = serde_json::to_vec(h).map_err(|e| e.to_string())?;
                    let c = serde_json::to_value(h).map_err(|e| e.to_string())?;
                    let d = serde_json::to_string_pretty(h).map_err(|e| e.to_string())?;
                    let e = serde_json::to_string(h).map_err(|e| e.to_string())?;
                    let va: Value = serde_json::from_str(&a).map_err(|e| e.to_string())?;
                    let vd: Value = serde_json::from_str(&d).map_err(|e| e.to_string())?;
                    if a.as_bytes() != b.as_slice() || a != e || va != c || va != vd {
                        return Err(format!("SAME-HANDLE serialising one handle again gives another output: first {} then {}", a, e));
                    }
                    Ok(a)
                }
                let r = catch(|| match *mode {
                    "plain" => several(&tree),
                    "resolver" => several(&tree.as_serialize_with_resolver(&snap)),
                    "data" => several(&tree.as_serialize_with_data()),
                    _ => several(&tree.as_serialize_with_data_with_resolver(&snap)),
                });
                match r {
                    Err(m) => {
                        cx.fail("C16", format!("serialising panicked: {}", m));
                        "panic".into()
                    }
                    Ok(Err(m)) => {
                        cx.fail("C16", format!("serialising failed: {}", m));
                        "err".into()
                    }
                    Ok(Ok(text)) => {
                        let original = describe(&tree);
                        let carries_data = *mode == "data" || *mode == "data_resolver";
                        let expect = if carries_data {
                            original.clone()
                        } else {
                            format!("{} []", dump_green(tree.green(), &snap))
                        };
                        // round trip through every input route
                        for route in ["str", "slice", "reader", "value"] {
                            cx.count(&format!("roundtrip.{}", route));
                            if text.contains('\\') {
                                cx.count("roundtrip.escaped_text");
                            }
                            match deser(route, &text) {
                                Ok(Ok(d)) => {
                                    cx.nontrivial();
                                    if d != expect {
                                        cx.fail("C16", format!("round trip ({}, {}) gives {} instead of {}", mode, route, d, expect));
                                    }
                                }
                                Ok(Err(m)) => cx.fail("C16", format!("round trip ({}, {}) is rejected: {}", mode, route, m)),
                                Err(m) => cx.fail("C16", format!("round trip ({}, {}) panicked: {}", mode, route, m)),
                            }
                        }
                        match serde_json::from_str::<Value>(&text).ok().and_then(|v| events_of_json(&v)) {
                            Some((evs, data)) => format!("{};{}", evs.join(","), data.join(",")),
                            None => format!("unparsable:{}", hex(&text)),
                        }
                    }
                }
            }
            ["deser", route, stream] => {
                let (evs, data) = stream.split_once(';').unwrap_or((stream, ""));
                let evs: Vec<&str> = evs.split(',').filter(|s| !s.is_empty()).collect();
                let data: Vec<&str> = data.split(',').filter(|s| !s.is_empty()).collect();
                let Some(v) = json_of_events(&evs, &data) else { return Some("bad-op".into()) };
                let text = v.to_string();
                cx.count(&format!("deser.{}", route));
                let want = reference(&evs, &data);
                match deser(route, &text) {
                    Ok(Ok(d)) => {
                        cx.nontrivial();
                        match &want {
                            Some(w) if *w == d => {}
                            Some(w) => cx.fail("C16", format!("deserialising {} gives {} but it describes {}", stream, d, w)),
                            None => cx.fail("C16", format!("malformed input {} was accepted as {}", stream, d)),
                        }
                        format!("ok {}", d)
                    }
                    Ok(Err(m)) => {
                        cx.nontrivial();
                        if want.is_some() {
                            cx.fail("C16", format!("well-formed input {} ({}) is rejected: {}", stream, route, m));
                        }
                        "err".into()
                    }
                    Err(m) => {
                        cx.fail("C16", format!("deserialising {} ({}) panicked: {}", stream, route, m));
                        "panic".into()
                    }
                }
            }
            ["deser_raw", route, h] => {
                let Some(text) = unhex(h) else { return Some("bad-op".into()) };
                cx.count("deser.raw");
                match deser(route, &text) {
                    Ok(Ok(d)) => {
                        cx.fail("C16", format!("corrupted input {} was accepted as {}", text, d));
                        format!("ok {}", d)
                    }
                    Ok(Err(_)) => {
                        cx.nontrivial();
                        "err".into()
                    }
                    Err(m) => {
                        cx.fail("C16", format!("corrupted input {} panicked: {}", text, m));
                        "panic".into()
                    }
                }
            }
            _ => return None,
        };
        Some(ans)
    }
}
