//! Text-view area (C12): `SyntaxText` against the materialised `String`.
use crate::area_builder::BuilderArea;
use crate::area_red::El;
use crate::interp::Ctx;
use crate::util::*;
use cstree::syntax::SyntaxText;
use cstree::text::{TextRange, TextSize};
use cstree::util::NodeOrToken;

#[derive(Clone)]
pub struct ViewRec {
    pub tree:   usize,
    pub node:   El,
    /// the chain of slice arguments that produced this view
    pub slices: Vec<(Option<u32>, Option<u32>, usize)>,
    /// the string the view denotes (reference), when known
    pub mat:    Option<String>,
}

fn ts(x: u32) -> TextSize {
    TextSize::from(x)
}

type V<'a> = SyntaxText<'a, 'a, SnapResolver, K>;

fn apply<'a>(mut v: V<'a>, slices: &[(Option<u32>, Option<u32>, usize)]) -> V<'a> {
    for (a, b, form) in slices {
        v = match (a, b) {
            (Some(a), Some(b)) => {
                if form % 2 == 0 {
                    v.slice(TextRange::new(ts(*a), ts(*b)))
                } else {
                    v.slice(ts(*a)..ts(*b))
                }
            }
            (Some(a), None) => v.slice(ts(*a)..),
            (None, Some(b)) => v.slice(..ts(*b)),
            (None, None) => v.slice(..),
        };
    }
    v
}

impl BuilderArea {
    pub fn text_step(&mut self, ws: &[&str], cx: &mut Ctx<'_>) -> Option<String> {
        let ans = match ws {
            ["view", eref] => {
                let Some(id) = eref.strip_prefix('e').and_then(|s| s.parse::<usize>().ok()) else { return Some("bad-op".into()) };
                let Some((t, e)) = self.red.elems.get(id).cloned() else { return Some("bad-op".into()) };
                let NodeOrToken::Node(n) = &e else { return Some("n/a".into()) };
                let snap = self.red.trees[t].snap.clone();
                let len = u32::from(n.resolve_text(&snap).len());
                let mat = match (self.red.trees[t].pos.get(&id), self.red.trees[t].arena.as_ref()) {
                    (Some(x), Some(ar)) => {
                        let mut s = String::new();
                        ar.text_of(*x, &mut s);
                        Some(s)
                    }
                    _ => None,
                };
                if let Some(m) = &mat {
                    if m.len() != len as usize {
                        cx.fail("C12", format!("view of e{} has length {} but its text has {} bytes", id, len, m.len()));
                    }
                }
                cx.count("op.view");
                self.views.push(ViewRec { tree: t, node: e, slices: vec![], mat });
                format!("v{} {}", self.views.len() - 1, len)
            }
            ["vslice", vref, a, b] => {
                let Some(i) = vref.strip_prefix('v').and_then(|s| s.parse::<usize>().ok()) else { return Some("bad-op".into()) };
                let Some(v) = self.views.get(i).cloned() else { return Some("bad-op".into()) };
                let pa = if *a == "-" { None } else { a.parse::<u32>().ok() };
                let pb = if *b == "-" { None } else { b.parse::<u32>().ok() };
                let mut slices = v.slices.clone();
                slices.push((pa, pb, self.views.len()));
                let snap = self.red.trees[v.tree].snap.clone();
                let NodeOrToken::Node(n) = &v.node else { return Some("bad-op".into()) };
                cx.count("op.vslice");
                let r = catch(|| u32::from(apply(n.resolve_text(&snap), &slices).len()));
                // reference: slice of the materialised string (byte offsets)
                let want: Option<Option<String>> = v.mat.as_ref().map(|m| {
                    let s = pa.unwrap_or(0) as usize;
                    let e = pb.map(|x| x as usize).unwrap_or(m.len());
                    if s <= e && e <= m.len() {
                        // non-boundary ends denote no string; the view is still created (lazily)
                        Some(m.get(s..e).map(|x| x.to_string()).unwrap_or_else(|| "\u{0}nonboundary".into()))
                    } else {
                        None
                    }
                });
                match r {
                    Ok(len) => {
                        let mat = match want {
                            Some(Some(s)) if !s.starts_with('\u{0}') => {
                                if s.len() != len as usize {
                                    cx.fail("C12", format!("slice has length {} but the string slice has {} bytes", len, s.len()));
                                }
                                Some(s)
                            }
                            Some(None) => {
                                cx.fail("C12", "slice outside the view was accepted".into());
                                None
                            }
                            _ => None,
                        };
                        self.views.push(ViewRec { tree: v.tree, node: v.node.clone(), slices, mat });
                        format!("v{} {}", self.views.len() - 1, len)
                    }
                    Err(_) => {
                        if let Some(Some(_)) = want {
                            cx.fail("C12", format!("slice {}..{} inside the view panicked", a, b));
                        }
                        "panic".into()
                    }
                }
            }
            ["vop", vref, op @ ..] => {
                let Some(i) = vref.strip_prefix('v').and_then(|s| s.parse::<usize>().ok()) else { return Some("bad-op".into()) };
                let Some(v) = self.views.get(i).cloned() else { return Some("bad-op".into()) };
                let snap = self.red.trees[v.tree].snap.clone();
                let NodeOrToken::Node(n) = &v.node else { return Some("bad-op".into()) };
                cx.count(&format!("vop.{}", op.first().unwrap_or(&"?")));
                let m = v.mat.clone();
                let r: Result<String, String> = catch(|| {
                    let view = apply(n.resolve_text(&snap), &v.slices);
                    match op {
                        ["len"] => u32::from(view.len()).to_string(),
                        ["is_empty"] => view.is_empty().to_string(),
                        ["to_string"] => {
                            let a = view.to_string();
                            let b: String = view.clone().into();
                            let mut c = String::new();
                            view.for_each_chunk(|ch| c.push_str(ch));
                            let d = view.fold_chunks(String::new(), |mut acc, ch| {
                                acc.push_str(ch);
                                acc
                            });
                            // the fallible folds: the whole text when `f` never fails, a proper prefix of chunks when it does
                            let e: Result<String, ()> = view.try_fold_chunks(String::new(), |mut acc, ch| {
                                acc.push_str(ch);
                                Ok(acc)
                            });
                            let mut f = String::new();
                            let fr: Result<(), ()> = view.try_for_each_chunk(|ch| {
                                f.push_str(ch);
                                Ok(())
                            });
                            let mut seen = 0usize;
                            let stop: Result<(), usize> = view.try_for_each_chunk(|ch| {
                                if seen >= 1 {
                                    return Err(seen);
                                }
                                seen += 1;
                                let _ = ch;
                                Ok(())
                            });
                            let mut nchunks = 0usize;
                            view.for_each_chunk(|_| nchunks += 1);
                            let stop_ok = if nchunks >= 2 { stop == Err(1) } else { stop == Ok(()) };
                            if a != b || a != c || a != d || e.as_deref() != Ok(a.as_str()) || fr.is_err() || f != a || !stop_ok
                                || format!("{:?}", view) != format!("{:?}", a)
                            {
                                "inconsistent".to_string()
                            } else {
                                hex(&a)
                            }
                        }
                        ["chunks"] => {
                            let mut cs = vec![];
                            view.for_each_chunk(|ch| cs.push(hex(ch)));
                            if cs.is_empty() { ".".to_string() } else { cs.join(" ") }
                        }
                        ["contains", h] => view.contains_char(unhex(h).unwrap().chars().next().unwrap()).to_string(),
                        ["find", h] => view
                            .find_char(unhex(h).unwrap().chars().next().unwrap())
                            .map(|p| u32::from(p).to_string())
                            .unwrap_or_else(|| "none".into()),
                        ["char_at", off] => view
                            .char_at(ts(off.parse().unwrap()))
                            .map(|c| hex(&c.to_string()))
                            .unwrap_or_else(|| "none".into()),
                        ["eqstr", h] => {
                            let s = unhex(h).unwrap();
                            let a = view == s.as_str();
                            let b = s.as_str() == view;
                            let c = view == *s.as_str();
                            let d = *s.as_str() == view;
                            if a != b || a != c || a != d {
                                "inconsistent".to_string()
                            } else {
                                a.to_string()
                            }
                        }
                        _ => "bad-op".to_string(),
                    }
                });
                match r {
                    Err(_) => {
                        if m.is_some() {
                            // a view with boundary ends never panics
                            let bad = matches!(op, ["char_at", _]) && {
                                // char_at at a non-boundary offset is outside the property
                                let off: usize = op[1].parse().unwrap_or(0);
                                !m.as_ref().unwrap().is_char_boundary(off.min(m.as_ref().unwrap().len()))
                            };
                            if !bad {
                                cx.fail("C12", format!("{} on a view denoting {} panicked", op.join(" "), hex(m.as_ref().unwrap())));
                            }
                        }
                        "panic".into()
                    }
                    Ok(got) => {
                        if let Some(m) = &m {
                            cx.nontrivial();
                            let want: Option<String> = match op {
                                ["len"] => Some(m.len().to_string()),
                                ["is_empty"] => Some(m.is_empty().to_string()),
                                ["to_string"] => Some(hex(m)),
                                ["chunks"] => None,
                                ["contains", h] => Some(m.contains(unhex(h).unwrap().chars().next().unwrap()).to_string()),
                                ["find", h] => Some(
                                    m.find(unhex(h).unwrap().chars().next().unwrap()).map(|p| p.to_string()).unwrap_or_else(|| "none".into()),
                                ),
                                ["char_at", off] => {
                                    let off: usize = off.parse().unwrap();
                                    if off >= m.len() {
                                        Some("none".into())
                                    } else if m.is_char_boundary(off) {
                                        Some(hex(&m[off..].chars().next().unwrap().to_string()))
                                    } else {
                                        None
                                    }
                                }
                                ["eqstr", h] => Some((m.as_str() == unhex(h).unwrap()).to_string()),
                                _ => None,
                            };
                            if let Some(w) = want {
                                if w != got {
                                    cx.fail("C12", format!("{} on a view denoting {} gives {} but the string gives {}", op.join(" "), hex(m), got, w));
                                }
                            }
                            if let ["chunks"] = op {
                                // chunks concatenate to the string
                                let joined: String = if got == "." { String::new() } else { got.split(' ').map(|h| unhex(h).unwrap_or_default()).collect() };
                                if &joined != m {
                                    cx.fail("C12", format!("chunks {} do not concatenate to {}", got, hex(m)));
                                }
                            }
                        }
                        got
                    }
                }
            }
            ["veq", a, b] => {
                let ia = a.strip_prefix('v').and_then(|s| s.parse::<usize>().ok());
                let ib = b.strip_prefix('v').and_then(|s| s.parse::<usize>().ok());
                let (Some(ia), Some(ib)) = (ia, ib) else { return Some("bad-op".into()) };
                let (Some(va), Some(vb)) = (self.views.get(ia).cloned(), self.views.get(ib).cloned()) else { return Some("bad-op".into()) };
                let sa = self.red.trees[va.tree].snap.clone();
                let sb = self.red.trees[vb.tree].snap.clone();
                let (NodeOrToken::Node(na), NodeOrToken::Node(nb)) = (&va.node, &vb.node) else { return Some("bad-op".into()) };
                cx.count("op.veq");
                let r = catch(|| {
                    let x = apply(na.resolve_text(&sa), &va.slices);
                    let y = apply(nb.resolve_text(&sb), &vb.slices);
                    (x == y, y == x)
                });
                match r {
                    Err(_) => {
                        if va.mat.is_some() && vb.mat.is_some() {
                            cx.fail("C12", format!("comparing views v{} and v{} panicked", ia, ib));
                        }
                        "panic".into()
                    }
                    Ok((xy, yx)) => {
                        if xy != yx {
                            cx.fail("C12", format!("view equality is not symmetric on v{}, v{}", ia, ib));
                        }
                        if let (Some(ma), Some(mb)) = (&va.mat, &vb.mat) {
                            cx.nontrivial();
                            if (ma == mb) != xy {
                                cx.fail("C12", format!("views denoting {} and {} compare {}", hex(ma), hex(mb), xy));
                            }
                            if ma == mb {
                                cx.count("veq.equal");
                            } else if ma.len() == mb.len() {
                                cx.count("veq.same_len_unequal");
                            } else {
                                cx.count("veq.different_len");
                            }
                        }
                        xy.to_string()
                    }
                }
            }
            _ => return self.serde_step(ws, cx),
        };
        Some(ans)
    }
}
