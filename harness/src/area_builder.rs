//! Builder area: `NodeCache`, `GreenNodeBuilder`, checkpoints, fault injection — real crate +
//! an identity-tracking reference (the implementation-side oracle for C01, C04, C09, C11, C20).
use crate::interp::{Area, Ctx};
use crate::util::*;
use cstree::build::{Checkpoint, GreenNodeBuilder, NodeCache};
use cstree::green::GreenNode;
use cstree::interning::Resolver;
use cstree::syntax::SyntaxNode;
use cstree::util::NodeOrToken;
use std::collections::HashMap;

#[derive(Clone, Debug, PartialEq, Eq)]
pub enum RefTree {
    Tok(u32, String),
    Node(u32, Vec<RefTree>),
}

impl RefTree {
    pub fn dump(&self) -> String {
        match self {
            RefTree::Tok(k, s) => format!("{}:{}", k, hex(s)),
            RefTree::Node(k, cs) => {
                let mut out = format!("({}", k);
                for c in cs {
                    out.push(' ');
                    out.push_str(&c.dump());
                }
                out.push(')');
                out
            }
        }
    }
    pub fn text(&self, out: &mut String) {
        match self {
            RefTree::Tok(_, s) => out.push_str(s),
            RefTree::Node(_, cs) => cs.iter().for_each(|c| c.text(out)),
        }
    }
}

pub fn dump_green(g: &GreenNode, r: &dyn Resolver) -> String {
    let mut out = format!("({}", g.kind().0);
    for c in g.children() {
        out.push(' ');
        match c {
            NodeOrToken::Node(n) => out.push_str(&dump_green(n, r)),
            NodeOrToken::Token(t) => {
                let text = match t.text(r) {
                    Some(s) => s.to_string(),
                    None => static_of(t.kind().0).map(|s| s.to_string()).unwrap_or_else(|| "<none>".into()),
                };
                out.push_str(&format!("{}:{}", t.kind().0, hex(&text)));
            }
        }
    }
    out.push(')');
    out
}

/// the children of a green node can be read by many routes (the iterator overrides `nth`, `last`, `fold`, `count`,
/// `next_back`, `nth_back`, `rfold`, `len`): all of them must read the same children in the same order as `next`
pub fn green_read_routes(g: &GreenNode) -> Option<String> {
    fn id(e: &NodeOrToken<&GreenNode, &cstree::green::GreenToken>) -> (bool, usize) {
        match e {
            NodeOrToken::Node(n) => (true, *n as *const GreenNode as usize),
            NodeOrToken::Token(t) => (false, *t as *const cstree::green::GreenToken as usize),
        }
    }
    let mut fwd = vec![];
    let mut it = g.children();
    while let Some(e) = it.next() {
        fwd.push(id(&e));
    }
    let n = fwd.len();
    let mut rev: Vec<(bool, usize)> = fwd.clone();
    rev.reverse();
    let mut back = vec![];
    let mut it = g.children();
    while let Some(e) = it.next_back() {
        back.push(id(&e));
    }
    if back != rev {
        return Some("next_back reads other children than next".into());
    }
    let mut v = vec![];
    g.children().for_each(|e| v.push(id(&e)));
    if v != fwd {
        return Some("fold/for_each reads other children than next".into());
    }
    let mut v = vec![];
    g.children().rev().for_each(|e| v.push(id(&e)));
    if v != rev {
        return Some("rfold (rev().for_each) reads other children than next_back".into());
    }
    let v: Vec<(bool, usize)> = g.children().rfold(vec![], |mut a, e| { a.push(id(&e)); a });
    if v != rev {
        return Some("rfold reads other children than next_back".into());
    }
    if g.children().len() != n || g.children().count() != n || g.children().size_hint() != (n, Some(n)) {
        return Some(format!("len/count/size_hint of the children differ from the {} children read", n));
    }
    if g.children().last().map(|e| id(&e)) != fwd.last().cloned() {
        return Some("last() is not the last child".into());
    }
    let ks: Vec<usize> = (0..=n.min(6)).chain(n.saturating_sub(2)..=n).collect();
    for k in ks {
        let mut it = g.children();
        if it.nth(k).map(|e| id(&e)) != fwd.get(k).cloned() {
            return Some(format!("nth({}) is not child {}", k, k));
        }
        if it.len() != n.saturating_sub(k + 1) || it.next().map(|e| id(&e)) != fwd.get(k + 1).cloned() {
            return Some(format!("after nth({}) the iterator is not at child {}", k, k + 1));
        }
        let mut it = g.children();
        if it.nth_back(k).map(|e| id(&e)) != rev.get(k).cloned() {
            return Some(format!("nth_back({}) is not child {} from the end", k, k));
        }
        if it.len() != n.saturating_sub(k + 1) || it.next_back().map(|e| id(&e)) != rev.get(k + 1).cloned() {
            return Some(format!("after nth_back({}) the iterator is not at child {} from the end", k, k + 1));
        }
        // from both ends
        let mut it = g.children();
        let a = it.next().map(|e| id(&e));
        let b = it.nth_back(k).map(|e| id(&e));
        let want_b = if k + 1 < n { rev.get(k).cloned() } else { None };
        if a != fwd.first().cloned() || b != want_b {
            return Some(format!("next then nth_back({}) reads a wrong child", k));
        }
    }
    // the element view of each child: kind and length through the enum's forwarders, the debug forms (never panic, name the kind)
    let mut sum = 0u32;
    for c in g.children() {
        let (k, l) = match &c {
            NodeOrToken::Node(n) => (n.kind(), n.text_len()),
            NodeOrToken::Token(t) => (t.kind(), t.text_len()),
        };
        if c.kind() != k || c.text_len() != l {
            return Some("the element view of a child reports another kind / length than the child".into());
        }
        sum += u32::from(l);
        let dbg = match &c {
            NodeOrToken::Node(n) => format!("{:?}", n),
            NodeOrToken::Token(t) => format!("{:?}", t),
        };
        if !dbg.contains(&k.0.to_string()) {
            return Some(format!("debug form of a green child of kind {} does not mention its kind: {}", k.0, dbg));
        }
    }
    if sum != u32::from(g.text_len()) {
        return Some(format!("text_len {:?} is not the sum {} of the children's lengths", g.text_len(), sum));
    }
    for c in g.children() {
        if let NodeOrToken::Node(c) = c {
            if let Some(m) = green_read_routes(c) {
                return Some(m);
            }
        }
    }
    None
}

fn green_text(g: &GreenNode, r: &dyn Resolver, out: &mut String) {
    for c in g.children() {
        match c {
            NodeOrToken::Node(n) => green_text(n, r, out),
            NodeOrToken::Token(t) => match t.text(r) {
                Some(s) => out.push_str(s),
                None => out.push_str(static_of(t.kind().0).unwrap_or("<none>")),
            },
        }
    }
}

/// per-node `(kind, text_len, child_hash)` through the public API: `GreenNode::hash` feeds exactly
/// these three `u32`s to the hasher it is given.
struct Rec(Vec<u32>);
impl std::hash::Hasher for Rec {
    fn finish(&self) -> u64 {
        0
    }
    fn write(&mut self, _bytes: &[u8]) {}
    fn write_u32(&mut self, i: u32) {
        self.0.push(i);
    }
}
fn heads(g: &GreenNode, out: &mut Vec<String>) {
    use std::hash::Hash;
    let mut r = Rec(vec![]);
    g.hash(&mut r);
    out.push(r.0.iter().map(|x| x.to_string()).collect::<Vec<_>>().join(","));
    for c in g.children() {
        if let NodeOrToken::Node(n) = c {
            heads(n, out);
        }
    }
}

fn addrs(g: &GreenNode, out: &mut Vec<usize>) {
    out.push(g.verif_addr());
    for c in g.children() {
        match c {
            NodeOrToken::Node(n) => addrs(n, out),
            NodeOrToken::Token(t) => out.push(t.verif_addr()),
        }
    }
}

/// ghost-stamped reference builder
#[derive(Default, Clone)]
struct RefBuilder {
    parents:  Vec<(u64, u32, usize)>,
    children: Vec<(u64, RefTree)>,
    stamp:    u64,
    used_cp:  bool,
}
#[derive(Clone)]
struct RefCp {
    parents:  Vec<u64>,
    children: Vec<u64>,
}
impl RefBuilder {
    fn fresh(&mut self) -> u64 {
        self.stamp += 1;
        self.stamp
    }
    fn wf(&self) -> bool {
        let mut prev = 0usize;
        for (_, _, f) in &self.parents {
            if *f < prev || *f > self.children.len() {
                return false;
            }
            prev = *f;
        }
        true
    }
    fn valid(&self, cp: &RefCp) -> bool {
        cp.parents.len() <= self.parents.len()
            && cp.children.len() <= self.children.len()
            && cp.parents.iter().zip(&self.parents).all(|(a, b)| *a == b.0)
            && cp.children.iter().zip(&self.children).all(|(a, b)| *a == b.0)
    }
}

type Builder = GreenNodeBuilder<'static, 'static, K, BoxI>;

pub struct BuilderArea {
    pub caches:    Vec<Option<NodeCache<'static, BoxI>>>,
    builder:   Option<(Builder, usize)>,
    refb:      RefBuilder,
    cps:       Vec<(Checkpoint, RefCp)>,
    pub greens:    Vec<(GreenNode, usize, String)>,
    pub reftrees:  Vec<Option<RefTree>>,
    addr_map:  HashMap<usize, usize>,
    /// C04 oracle, per cache slot: structural key -> address
    tok_addr:  HashMap<(usize, u32, String), usize>,
    node_addr: HashMap<(usize, u32, String), usize>,
    addr_dump: HashMap<usize, String>,
    threshold: usize,
    faulted:   bool,
    pub red:   crate::area_red::RedState,
    pub views: Vec<crate::area_text::ViewRec>,
}

impl Default for BuilderArea {
    fn default() -> Self {
        BuilderArea {
            caches:    vec![],
            builder:   None,
            refb:      RefBuilder::default(),
            cps:       vec![],
            greens:    vec![],
            reftrees:  vec![],
            addr_map:  HashMap::new(),
            tok_addr:  HashMap::new(),
            node_addr: HashMap::new(),
            addr_dump: HashMap::new(),
            threshold: 3,
            faulted:   false,
            red:       Default::default(),
            views:     vec![],
        }
    }
}

impl BuilderArea {
    /// C04: equal tokens / equal small nodes share one allocation; one allocation never stands for
    /// two different structures.
    fn check_sharing(&mut self, g: &GreenNode, slot: usize, r: &dyn Resolver, cx: &mut Ctx<'_>) -> usize {
        let mut child_addrs = vec![];
        for c in g.children() {
            match c {
                NodeOrToken::Node(n) => child_addrs.push(self.check_sharing(n, slot, r, cx)),
                NodeOrToken::Token(t) => {
                    let text = t
                        .text(r)
                        .map(|s| s.to_string())
                        .or_else(|| static_of(t.kind().0).map(|s| s.to_string()))
                        .unwrap_or_default();
                    let a = t.verif_addr();
                    let key = (slot, t.kind().0, text.clone());
                    match self.tok_addr.get(&key) {
                        Some(prev) if *prev != a => {
                            cx.fail("C04", format!("equal tokens {}:{} not shared", key.1, hex(&key.2)));
                        }
                        Some(_) => cx.count("c04.token_shared"),
                        None => {
                            self.tok_addr.insert(key, a);
                        }
                    }
                    let d = format!("{}:{}", t.kind().0, hex(&text));
                    if let Some(prev) = self.addr_dump.get(&a) {
                        if *prev != d {
                            cx.fail("C04", format!("one allocation stands for {} and {}", prev, d));
                        }
                    } else {
                        self.addr_dump.insert(a, d);
                    }
                    child_addrs.push(a);
                }
            }
        }
        let a = g.verif_addr();
        let d = dump_green(g, r);
        if let Some(prev) = self.addr_dump.get(&a) {
            if *prev != d {
                cx.fail("C04", format!("one allocation stands for {} and {}", prev, d));
            }
        } else {
            self.addr_dump.insert(a, d.clone());
        }
        if child_addrs.len() <= self.threshold {
            // "equal kind and equal children" is structural: the key is the node's dump (kinds, nesting, token texts),
            // not the children's addresses -- a child that is itself too big for the cache is a different allocation
            // each time, and the small node around it must still be shared
            let _ = child_addrs;
            let key = (slot, g.kind().0, d.clone());
            match self.node_addr.get(&key) {
                Some(prev) if *prev != a => {
                    cx.count("c04.small_node_not_shared");
                    cx.fail("C04", format!("small node {} has two allocations", dump_green(g, r)));
                }
                Some(_) => {
                    cx.count("c04.node_shared");
                    cx.nontrivial();
                }
                None => {
                    self.node_addr.insert(key, a);
                }
            }
        }
        a
    }
}

#[derive(Clone, Debug)]
enum CEv {
    Start(u32),
    Tok(u32, String),
    Stok(u32),
    Fin,
}

fn parse_compact(evs: &str) -> Option<Vec<CEv>> {
    let mut v = vec![];
    for w in evs.split(',') {
        let (h, r) = w.split_at(1.min(w.len()));
        v.push(match h {
            "s" => CEv::Start(r.parse().ok()?),
            "k" => CEv::Stok(r.parse().ok()?),
            "f" if r.is_empty() => CEv::Fin,
            "t" => {
                let (k, hx) = r.split_once(':')?;
                CEv::Tok(k.parse().ok()?, unhex(hx)?)
            }
            _ => return None,
        });
    }
    Some(v)
}

/// Token texts reach the builder through one long-lived scratch buffer, the way a lexer that assembles lexemes does: consecutive
/// texts then sit at the *same address* (and often have the same length) with different contents, so anything that recognises
/// a text by where it lies instead of by what it says is told apart from the crate as it is.
pub fn with_scratch<R>(text: &str, f: impl FnOnce(&str) -> R) -> R {
    use std::sync::Mutex;
    static SCRATCH: Mutex<String> = Mutex::new(String::new());
    let mut s = SCRATCH.lock().unwrap_or_else(|e| e.into_inner());
    if s.capacity() < (1 << 20) {
        let need = (1usize << 20) - s.len();
        s.reserve(need);
    }
    s.clear();
    s.push_str(text);
    let r = f(s.as_str());
    // leave other bytes behind: a text that is read again later through a remembered address must not find itself
    s.clear();
    s.push_str("\u{1}\u{1}\u{1}\u{1}\u{1}\u{1}\u{1}\u{1}");
    r
}

fn apply_compact<'c, 'i>(b: &mut GreenNodeBuilder<'c, 'i, K, BoxI>, evs: &[CEv]) {
    for e in evs {
        match e {
            CEv::Start(k) => b.start_node(K(*k)),
            CEv::Tok(k, t) => with_scratch(t, |t| b.token(K(*k), t)),
            CEv::Stok(k) => b.static_token(K(*k)),
            CEv::Fin => b.finish_node(),
        }
    }
}

fn compact_reference(evs: &[CEv]) -> Option<RefTree> {
    let mut stack: Vec<(u32, Vec<RefTree>)> = vec![];
    let mut done: Vec<RefTree> = vec![];
    for e in evs {
        match e {
            CEv::Start(k) => stack.push((*k, vec![])),
            CEv::Tok(k, t) => stack.last_mut()?.1.push(RefTree::Tok(*k, t.clone())),
            CEv::Stok(k) => stack.last_mut()?.1.push(RefTree::Tok(*k, static_of(*k)?.to_string())),
            CEv::Fin => {
                let (k, cs) = stack.pop()?;
                let n = RefTree::Node(k, cs);
                match stack.last_mut() {
                    Some(top) => top.1.push(n),
                    None => done.push(n),
                }
            }
        }
    }
    if stack.is_empty() && done.len() == 1 {
        done.pop()
    } else {
        None
    }
}

impl BuilderArea {
    /// a whole (valid, fault-free) tree built in one go through one of the other constructors of the builder:
    /// `with_cache(&mut cache)` (borrowed cache, `finish` hands back no cache), `with_interner(&mut interner)`
    /// (fresh cache over a borrowed interner), `from_interner(interner)` (fresh owned cache)
    fn wbuild(&mut self, how: &str, slot: usize, evs: &str, cx: &mut Ctx<'_>) -> String {
        let Some(evs) = parse_compact(evs) else { return "bad-op".into() };
        let Some(rt) = compact_reference(&evs) else { return "bad-op".into() };
        cx.count(&format!("op.wbuild.{}", how));
        let mut cache = self.caches[slot].take().unwrap();
        let built: Result<GreenNode, String> = match how {
            "with_cache" => catch(std::panic::AssertUnwindSafe(|| {
                let mut b: GreenNodeBuilder<'_, '_, K, BoxI> = GreenNodeBuilder::with_cache(&mut cache);
                apply_compact(&mut b, &evs);
                let (g, c) = b.finish();
                if c.is_some() {
                    panic!("finish returned a cache although the builder only borrowed one");
                }
                g
            })),
            "with_interner" | "from_interner" => {
                self.forget_sharing(slot);
                let Some(mut i) = cache.into_interner() else {
                    return "bad-op".into();
                };
                if how == "with_interner" {
                    let r = catch(std::panic::AssertUnwindSafe(|| {
                        let mut b: GreenNodeBuilder<'_, '_, K, BoxI> = GreenNodeBuilder::with_interner(&mut i);
                        apply_compact(&mut b, &evs);
                        let (g, c) = b.finish();
                        if c.is_none() {
                            panic!("finish returned no cache although the builder owned one");
                        }
                        g
                    }));
                    cache = NodeCache::from_interner(i);
                    r
                } else {
                    let mut out: Option<NodeCache<'static, BoxI>> = None;
                    let backend = i.backend.clone();
                    let r = catch(std::panic::AssertUnwindSafe(|| {
                        let mut b: GreenNodeBuilder<'static, 'static, K, BoxI> = GreenNodeBuilder::from_interner(i);
                        apply_compact(&mut b, &evs);
                        let (g, c) = b.finish();
                        out = c;
                        g
                    }));
                    cache = match out {
                        Some(c) => c,
                        None => {
                            cx.fail("C04", "finish returned no cache although the builder owned one".into());
                            NodeCache::from_interner(make_interner(&backend).unwrap())
                        }
                    };
                    r
                }
            }
            _ => {
                self.caches[slot] = Some(cache);
                return "bad-op".into();
            }
        };
        let ans = match built {
            Ok(g) => {
                let n = self.greens.len();
                let d = dump_green(&g, cache.interner());
                let rd = rt.dump();
                if rd != d {
                    cx.fail("C01", format!("tree {} differs from the events' tree {}", d, rd));
                }
                let mut want = String::new();
                rt.text(&mut want);
                let mut got = String::new();
                green_text(&g, cache.interner(), &mut got);
                if want != got {
                    cx.fail("C01", format!("text {} differs from the input text {}", hex(&got), hex(&want)));
                }
                if u32::from(g.text_len()) as usize != want.len() {
                    cx.fail("C01", format!("text_len {:?} but input has {} bytes", g.text_len(), want.len()));
                }
                self.reftrees.push(Some(rt));
                self.check_sharing(&g, slot, cache.interner(), cx);
                self.greens.push((g, slot, d.clone()));
                format!("g{} {}", n, d)
            }
            Err(m) => {
                cx.fail("C01", format!("building a valid tree through `{}` panicked: {}", how, m));
                "panic".into()
            }
        };
        if how == "with_interner" {
            // the cache of that build is gone
            self.forget_sharing(slot);
        }
        self.caches[slot] = Some(cache);
        ans
    }

    /// a cache slot was re-created: its sharing expectations start afresh
    pub fn forget_sharing(&mut self, slot: usize) {
        self.tok_addr.retain(|k, _| k.0 != slot);
        self.node_addr.retain(|k, _| k.0 != slot);
    }
}

impl Area for BuilderArea {
    fn reset_case(&mut self) {
        let th = self.threshold;
        *self = BuilderArea::default();
        self.threshold = th;
    }

    fn step(&mut self, ws: &[&str], cx: &mut Ctx<'_>) -> Option<String> {
        let ans = match ws {
            // the oracle's notion of a "small node" is the documented one (at most three children), whatever
            // constant / comparison the code under test uses
            ["__threshold", _n] => "ok".to_string(),
            ["cache", backend] => match make_interner(backend) {
                Some(i) => {
                    self.caches.push(Some(NodeCache::from_interner(i)));
                    cx.count(&format!("backend.{}", backend));
                    format!("c{}", self.caches.len() - 1)
                }
                None => "bad-op".into(),
            },
            ["wbuild", how, c, evs] => {
                let slot = c.strip_prefix('c').and_then(|s| s.parse::<usize>().ok());
                match slot {
                    Some(slot) if slot < self.caches.len() && self.caches[slot].is_some() && self.builder.is_none() => {
                        self.wbuild(how, slot, evs, cx)
                    }
                    _ => "bad-op".into(),
                }
            }
            ["wabandon", c, evs] => {
                // a builder that only borrows the cache is fed a prefix of a tree and dropped without `finish`
                let slot = c.strip_prefix('c').and_then(|s| s.parse::<usize>().ok());
                match (slot, parse_compact(evs)) {
                    (Some(slot), Some(evs)) if slot < self.caches.len() && self.caches[slot].is_some() && self.builder.is_none() => {
                        cx.count("op.wabandon");
                        let mut cache = self.caches[slot].take().unwrap();
                        let r = catch(std::panic::AssertUnwindSafe(|| {
                            let mut b: GreenNodeBuilder<'_, '_, K, BoxI> = GreenNodeBuilder::with_cache(&mut cache);
                            apply_compact(&mut b, &evs);
                            drop(b);
                        }));
                        self.caches[slot] = Some(cache);
                        if r.is_ok() { "ok".into() } else { "panic".into() }
                    }
                    _ => "bad-op".into(),
                }
            }
            ["builder", c] => {
                let slot = c.strip_prefix('c').and_then(|s| s.parse::<usize>().ok());
                match slot {
                    Some(slot) if slot < self.caches.len() && self.caches[slot].is_some() && self.builder.is_none() => {
                        let cache = self.caches[slot].take().unwrap();
                        self.builder = Some((GreenNodeBuilder::from_cache(cache), slot));
                        self.refb = RefBuilder::default();
                        self.cps.clear();
                        "ok".into()
                    }
                    _ => "bad-op".into(),
                }
            }
            ["start", k] => match (k.parse::<u32>(), self.builder.as_mut()) {
                (Ok(k), Some((b, _))) => {
                    let r = catch(|| b.start_node(K(k)));
                    let st = self.refb.fresh();
                    let n = self.refb.children.len();
                    self.refb.parents.push((st, k, n));
                    cx.count("op.start");
                    if r.is_ok() { "ok".into() } else { "panic".into() }
                }
                _ => "bad-op".into(),
            },
            ["tok", k, h] => match (k.parse::<u32>(), unhex(h), self.builder.as_mut()) {
                (Ok(k), Some(text), Some((b, _))) => {
                    let injected = b.interner().fail_next && static_of(k).is_none();
                    let r = catch(std::panic::AssertUnwindSafe(|| with_scratch(&text, |t| b.token(K(k), t))));
                    cx.count("op.tok");
                    if text.is_empty() {
                        cx.count("tok.empty");
                    }
                    if text.len() != text.chars().count() {
                        cx.count("tok.multibyte");
                    }
                    if static_of(k).is_some() {
                        cx.count("tok.static_kind");
                    }
                    match r {
                        Ok(()) => {
                            if injected {
                                cx.fail("C20", "injected interner fault did not surface as a panic".into());
                            }
                            let st = self.refb.fresh();
                            let t = match static_of(k) {
                                Some(s) => s.to_string(),
                                None => text,
                            };
                            self.refb.children.push((st, RefTree::Tok(k, t)));
                            "ok".into()
                        }
                        Err(_) => {
                            if injected {
                                cx.count("fault.injected");
                                cx.nontrivial();
                                self.faulted = true;
                            } else if static_of(k).map(|s| s == text).unwrap_or(true) {
                                // neither an injected fault nor a static-text mismatch (debug build)
                                cx.fail("C01", format!("token({}, {}) panicked", k, hex(&text)));
                            }
                            "panic".into()
                        }
                    }
                }
                _ => "bad-op".into(),
            },
            ["stok", k] => match (k.parse::<u32>(), self.builder.as_mut()) {
                (Ok(k), Some((b, _))) => {
                    let r = catch(|| b.static_token(K(k)));
                    cx.count("op.stok");
                    match (r, static_of(k)) {
                        (Ok(()), Some(s)) => {
                            let st = self.refb.fresh();
                            self.refb.children.push((st, RefTree::Tok(k, s.to_string())));
                            "ok".into()
                        }
                        (Ok(()), None) => {
                            cx.fail("C11", format!("static_token({}) accepted without static text", k));
                            "ok".into()
                        }
                        (Err(_), Some(_)) => {
                            cx.fail("C11", format!("static_token({}) panicked", k));
                            "panic".into()
                        }
                        (Err(_), None) => "panic".into(),
                    }
                }
                _ => "bad-op".into(),
            },
            ["failnext"] => match self.builder.as_mut() {
                Some((b, _)) => {
                    b.interner_mut().fail_next = true;
                    "ok".into()
                }
                None => "bad-op".into(),
            },
            ["finish_node"] => match self.builder.as_mut() {
                Some((b, _)) => {
                    let r = catch(|| b.finish_node());
                    cx.count("op.finish_node");
                    match r {
                        Ok(()) => {
                            match self.refb.parents.pop() {
                                Some((_, k, first)) => {
                                    if first > self.refb.children.len() {
                                        cx.fail("C09", "finish_node succeeded on an ill-formed builder".into());
                                    } else {
                                        let cs: Vec<RefTree> =
                                            self.refb.children.drain(first..).map(|(_, t)| t).collect();
                                        if cs.is_empty() {
                                            cx.count("node.empty");
                                        }
                                        let st = self.refb.fresh();
                                        self.refb.children.push((st, RefTree::Node(k, cs)));
                                    }
                                }
                                None => cx.fail("C01", "finish_node succeeded without an open node".into()),
                            }
                            "ok".into()
                        }
                        Err(_) => {
                            if !self.refb.parents.is_empty() && self.refb.wf() {
                                cx.fail("C01", "finish_node panicked with an open node".into());
                            }
                            "panic".into()
                        }
                    }
                }
                None => "bad-op".into(),
            },
            // checkpoints at great nesting depth (a builder of its own, never finished: the tree itself would be too deep to
            // drop recursively): a valid revert, a valid wrap and three `finish_node`s after them must all go through
            ["deepcp", n] => {
                let n: usize = n.parse().unwrap_or(0);
                cx.count("op.deepcp");
                cx.nontrivial();
                let r = catch(|| {
                    let mut b: GreenNodeBuilder<'static, 'static, K> = GreenNodeBuilder::new();
                    for _ in 0..n {
                        b.start_node(K(0));
                    }
                    let cp1 = b.checkpoint();
                    b.token(K(10), "a");
                    let mut steps: Vec<&'static str> = vec![];
                    if std::panic::catch_unwind(std::panic::AssertUnwindSafe(|| b.revert_to(cp1))).is_err() {
                        steps.push("a valid revert_to panicked");
                    }
                    b.token(K(10), "b");
                    let cp2 = b.checkpoint();
                    b.token(K(10), "c");
                    if std::panic::catch_unwind(std::panic::AssertUnwindSafe(|| b.start_node_at(cp2, K(2)))).is_err() {
                        steps.push("a valid start_node_at panicked");
                    }
                    for _ in 0..3.min(n + 1) {
                        if std::panic::catch_unwind(std::panic::AssertUnwindSafe(|| b.finish_node())).is_err() {
                            steps.push("finish_node of a node that is still open panicked");
                            break;
                        }
                    }
                    // the builder is dropped unfinished: its stacks are flat
                    steps
                });
                match r {
                    Ok(steps) if steps.is_empty() => "deep ok".into(),
                    Ok(steps) => {
                        cx.fail("C09", format!("with {} open nodes: {}", n, steps.join("; ")));
                        format!("deep fail {}", steps.len())
                    }
                    Err(m) => {
                        cx.fail("C09", format!("with {} open nodes: {}", n, m));
                        "deep panic".into()
                    }
                }
            }
            ["cp"] => match self.builder.as_ref() {
                Some((b, _)) => {
                    let cp = b.checkpoint();
                    let rcp = RefCp {
                        parents:  self.refb.parents.iter().map(|p| p.0).collect(),
                        children: self.refb.children.iter().map(|c| c.0).collect(),
                    };
                    let ans = format!("k{} {} {}", self.cps.len(), rcp.parents.len(), rcp.children.len());
                    self.cps.push((cp, rcp));
                    self.refb.used_cp = true;
                    cx.count("op.cp");
                    ans
                }
                None => "bad-op".into(),
            },
            ["start_at", kref, k] => {
                let i = kref.strip_prefix('k').and_then(|s| s.parse::<usize>().ok());
                match (i, k.parse::<u32>(), self.builder.as_mut()) {
                    (Some(i), Ok(k), Some((b, _))) if i < self.cps.len() => {
                        let (cp, rcp) = self.cps[i].clone();
                        let r = catch(|| b.start_node_at(cp, K(k)));
                        let valid = self.refb.valid(&rcp);
                        let open = self.refb.parents.len() > rcp.parents.len();
                        cx.count("op.start_at");
                        match r {
                            Ok(()) => {
                                if valid && open {
                                    cx.fail("C09", "start_node_at accepted a checkpoint with an open node since".into());
                                }
                                if valid {
                                    cx.count("cp.wrap_valid");
                                    cx.nontrivial();
                                } else {
                                    cx.count("cp.wrap_invalid_accepted");
                                }
                                let st = self.refb.fresh();
                                self.refb.parents.push((st, k, rcp.children.len()));
                                if !self.refb.wf() {
                                    cx.fail("C09", "start_node_at left an ill-formed builder".into());
                                }
                                "ok".into()
                            }
                            Err(_) => {
                                if valid && !open {
                                    cx.fail("C09", "start_node_at panicked on a valid checkpoint".into());
                                } else if valid {
                                    cx.count("cp.wrap_open_panic");
                                } else {
                                    cx.count("cp.wrap_invalid_panic");
                                }
                                "panic".into()
                            }
                        }
                    }
                    _ => "bad-op".into(),
                }
            }
            ["revert", kref] => {
                let i = kref.strip_prefix('k').and_then(|s| s.parse::<usize>().ok());
                match (i, self.builder.as_mut()) {
                    (Some(i), Some((b, _))) if i < self.cps.len() => {
                        let (cp, rcp) = self.cps[i].clone();
                        let r = catch(|| b.revert_to(cp));
                        let valid = self.refb.valid(&rcp);
                        cx.count("op.revert");
                        match r {
                            Ok(()) => {
                                if valid {
                                    cx.count("cp.revert_valid");
                                    if self.refb.parents.len() > rcp.parents.len()
                                        && self.refb.children.len() > rcp.children.len()
                                    {
                                        cx.count("cp.revert_valid_discards_open_node_and_elems");
                                    }
                                    cx.nontrivial();
                                } else {
                                    cx.count("cp.revert_invalid_accepted");
                                }
                                self.refb.parents.truncate(rcp.parents.len());
                                self.refb.children.truncate(rcp.children.len());
                                if !self.refb.wf() {
                                    cx.fail("C09", "revert_to left an ill-formed builder".into());
                                }
                                "ok".into()
                            }
                            Err(_) => {
                                if valid {
                                    cx.fail("C09", "revert_to panicked on a valid checkpoint".into());
                                } else {
                                    cx.count("cp.revert_invalid_panic");
                                }
                                "panic".into()
                            }
                        }
                    }
                    _ => "bad-op".into(),
                }
            }
            ["finish"] => match self.builder.take() {
                Some((b, slot)) => {
                    let r = catch(move || b.finish());
                    cx.count("op.finish");
                    let expect_ok =
                        self.refb.children.len() == 1 && matches!(self.refb.children[0].1, RefTree::Node(..));
                    match r {
                        Ok((g, cache)) => {
                            let cache = cache.expect("owned cache");
                            let n = self.greens.len();
                            let d = dump_green(&g, cache.interner());
                            let prop = if self.refb.used_cp {
                                "C09"
                            } else if self.faulted {
                                "C20"
                            } else {
                                "C01"
                            };
                            if !expect_ok {
                                cx.fail(prop, "finish succeeded but the reference holds no single root node".into());
                                self.reftrees.push(None);
                            } else {
                                let rt = self.refb.children[0].1.clone();
                                let rd = rt.dump();
                                if rd != d {
                                    cx.fail(prop, format!("tree {} differs from the events' tree {}", d, rd));
                                }
                                let mut want = String::new();
                                rt.text(&mut want);
                                let mut got = String::new();
                                green_text(&g, cache.interner(), &mut got);
                                if want != got {
                                    cx.fail(prop, format!("text {} differs from the input text {}", hex(&got), hex(&want)));
                                }
                                if u32::from(g.text_len()) as usize != want.len() {
                                    cx.fail(prop, format!("text_len {:?} but input has {} bytes", g.text_len(), want.len()));
                                }
                                self.reftrees.push(Some(rt));
                            }
                            self.check_sharing(&g, slot, cache.interner(), cx);
                            self.greens.push((g, slot, d.clone()));
                            self.caches[slot] = Some(cache);
                            format!("g{} {}", n, d)
                        }
                        Err(_) => {
                            if expect_ok {
                                cx.fail("C01", "finish panicked on a single finished root node".into());
                            }
                            "panic".into()
                        }
                    }
                }
                None => "bad-op".into(),
            },
            ["dump", gref] | ["text", gref] | ["heads", gref] | ["ids", gref] => {
                let i = gref.strip_prefix('g').and_then(|s| s.parse::<usize>().ok());
                match i {
                    Some(i) if i < self.greens.len() => {
                        let (g, slot, d0) = self.greens[i].clone();
                        let Some(cache) = self.caches[slot].as_ref() else { return Some("bad-op".into()) };
                        let r = cache.interner();
                        match ws[0] {
                            "dump" => {
                                let d = dump_green(&g, r);
                                if d != d0 {
                                    cx.fail("C04", format!("earlier tree changed from {} to {}", d0, d));
                                }
                                cx.count("c04.redump");
                                match catch(|| green_read_routes(&g)) {
                                    Ok(None) => {}
                                    Ok(Some(m)) => cx.fail("C01", format!("reading the finished tree: {}", m)),
                                    Err(m) => cx.fail("C01", format!("reading the finished tree panicked: {}", m)),
                                }
                                d
                            }
                            "text" => {
                                let mut got = String::new();
                                green_text(&g, r, &mut got);
                                // second route: through a red tree and the lazy text view
                                let red: SyntaxNode<K> = SyntaxNode::new_root(g.clone());
                                let via_red = red.resolve_text(r).to_string();
                                if via_red != got {
                                    cx.fail("C01", format!("red text {} != green text {}", hex(&via_red), hex(&got)));
                                }
                                match catch(|| green_read_routes(&g)) {
                                    Ok(None) => {}
                                    Ok(Some(m)) => cx.fail("C01", format!("reading the finished tree: {}", m)),
                                    Err(m) => cx.fail("C01", format!("reading the finished tree panicked: {}", m)),
                                }
                                format!("{} {}", hex(&got), u32::from(g.text_len()))
                            }
                            "heads" => {
                                let mut hs = vec![];
                                heads(&g, &mut hs);
                                hs.join(" ")
                            }
                            _ => {
                                let mut a = vec![];
                                addrs(&g, &mut a);
                                let mut out = vec![];
                                for x in a {
                                    let n = self.addr_map.len();
                                    let c = *self.addr_map.entry(x).or_insert(n);
                                    out.push(c.to_string());
                                }
                                out.join(" ")
                            }
                        }
                    }
                    _ => "bad-op".into(),
                }
            }
            _ => return self.green_step(ws, cx),
        };
        Some(ans)
    }
}
