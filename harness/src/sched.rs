//! Deterministic scheduler for the concurrency checks (C05, C06, C18).
//!
//! Participating threads park at every hook point of the crate (a lock acquisition or a
//! read-modify-write of the tree's counter); exactly one runs at a time, from one point to the next.
//! The controller picks among the threads whose pending point is enabled (a thread about to take a
//! lock that is held is not).  A run is a deterministic function of the list of choices.
use cstree::verif::{Hook, LockKind, Note, Point};
use std::cell::Cell;
use std::collections::HashMap;
use std::sync::{Arc, Condvar, Mutex};

thread_local! {
    static TID: Cell<Option<usize>> = const { Cell::new(None) };
}

pub fn set_tid(t: Option<usize>) {
    TID.with(|c| c.set(t));
}
pub fn tid() -> Option<usize> {
    TID.with(|c| c.get())
}

#[derive(Clone, Debug, PartialEq)]
pub enum Status {
    NotStarted,
    Running,
    AtPoint(PointKind),
    Finished,
}

#[derive(Clone, Copy, Debug, PartialEq)]
pub enum PointKind {
    Start,
    Hook(Point),
    /// a scheduling point of the harness' own making (e.g. the destructor of a data payload): code of the crate that runs
    /// user code between two of its own synchronisation points can be interleaved there
    User(&'static str),
}

static CURRENT: Mutex<Option<Arc<Sched>>> = Mutex::new(None);

/// the scheduler the participating threads of the running execution report to
pub fn set_current(s: Option<Arc<Sched>>) {
    *CURRENT.lock().unwrap() = s;
}

/// called from user code that the crate runs (payload destructors): a scheduling point for participating threads
pub fn user_point(what: &'static str) {
    if let Some(t) = tid() {
        let cur = CURRENT.lock().unwrap().clone();
        if let Some(s) = cur {
            s.at_point(t, PointKind::User(what));
        }
    }
}

#[derive(Clone, Debug)]
pub enum Ev {
    Point(PointKind),
    Note(Note),
    /// result of a program operation, recorded by the thread itself
    Op(String),
}

#[derive(Default)]
struct LockSt {
    readers: Vec<usize>,
    writer:  Option<usize>,
}

/// Where to report a heap violation that must stop the process: the instrumentation sees a double free
/// or an access to a freed block *before* it happens; letting it happen would corrupt the allocator.
pub static FATAL: Mutex<Option<(String, String)>> = Mutex::new(None);

fn fatal(st: &St, msg: &str) -> ! {
    fatal_as(st, "C06", msg)
}

fn fatal_as(st: &St, prop: &str, msg: &str) -> ! {
    if let Some((outdir, descr)) = FATAL.lock().unwrap().clone() {
        let tail: Vec<String> = st.trace.iter().rev().take(60).rev()
            .map(|(t, ev)| format!("{} {:?}", if *t == MAIN { "main".to_string() } else { t.to_string() }, ev)).collect();
        let grants: String = st.grants.iter().map(|g| g.to_string()).collect();
        let j = serde_json::json!({ "prop": prop, "what": msg, "execution": descr, "schedule": grants, "trace_tail": tail });
        let _ = std::fs::create_dir_all(&outdir);
        let _ = std::fs::write(format!("{}/fatal.json", outdir), j.to_string() + "\n");
    }
    eprintln!("fatal heap violation: {}", msg);
    std::process::exit(4);
}

pub struct St {
    pub grants: Vec<usize>,
    status:  Vec<Status>,
    granted: Option<usize>,
    locks:   HashMap<usize, LockSt>,
    pub trace: Vec<(usize, Ev)>,
    /// lock-set violations: an access to a slot / data cell without the lock in the needed mode
    pub lockset_violations: Vec<String>,
    held:    Vec<Vec<(usize, bool, LockKind)>>,
    pub deadlock: bool,
    /// allocation accounting (NodeData blocks and the count cell)
    pub live: std::collections::HashSet<usize>,
    pub heap_violations: Vec<String>,
}

/// pseudo thread id of the un-scheduled main thread
pub const MAIN: usize = usize::MAX;

pub struct Sched {
    st: Mutex<St>,
    cv: Condvar,
}

impl Sched {
    pub fn new(nthreads: usize) -> Arc<Sched> {
        Arc::new(Sched {
            st: Mutex::new(St {
                grants: vec![],
                status:  vec![Status::NotStarted; nthreads],
                granted: None,
                locks:   HashMap::new(),
                trace:   vec![],
                lockset_violations: vec![],
                held:    vec![vec![]; nthreads + 1],
                deadlock: false,
                live: Default::default(),
                heap_violations: vec![],
            }),
            cv: Condvar::new(),
        })
    }

    fn at_point(&self, t: usize, p: PointKind) {
        let mut st = self.st.lock().unwrap();
        st.status[t] = Status::AtPoint(p);
        self.cv.notify_all();
        while st.granted != Some(t) {
            st = self.cv.wait(st).unwrap();
        }
        st.granted = None;
        st.status[t] = Status::Running;
        st.trace.push((t, Ev::Point(p)));
    }

    /// called by a participating thread before it does anything
    pub fn thread_start(&self, t: usize) {
        set_tid(Some(t));
        self.at_point(t, PointKind::Start);
    }

    pub fn thread_finish(&self, t: usize) {
        let mut st = self.st.lock().unwrap();
        st.status[t] = Status::Finished;
        set_tid(None);
        self.cv.notify_all();
    }

    pub fn record_op(&self, t: usize, s: String) {
        self.st.lock().unwrap().trace.push((t, Ev::Op(s)));
    }

    fn enabled(st: &St, t: usize) -> bool {
        match &st.status[t] {
            Status::AtPoint(PointKind::Start) => true,
            Status::AtPoint(PointKind::User(_)) => true,
            Status::AtPoint(PointKind::Hook(Point::Rmw { .. })) => true,
            // a try-lock never waits; a thread inside a critical section can always go on
            Status::AtPoint(PointKind::Hook(Point::TryLock { .. })) | Status::AtPoint(PointKind::Hook(Point::InSection { .. })) => true,
            Status::AtPoint(PointKind::Hook(Point::Lock { addr, write, .. })) => match st.locks.get(addr) {
                None => true,
                Some(l) => {
                    if *write {
                        l.writer.is_none() && l.readers.is_empty()
                    } else {
                        l.writer.is_none()
                    }
                }
            },
            _ => false,
        }
    }

    /// Wait until no thread is running; return the enabled threads (`None` when all have finished).
    pub fn wait_quiescent(&self) -> Option<Vec<usize>> {
        let mut st = self.st.lock().unwrap();
        loop {
            let busy = st.status.iter().any(|s| matches!(s, Status::Running | Status::NotStarted)) || st.granted.is_some();
            if !busy {
                break;
            }
            st = self.cv.wait(st).unwrap();
        }
        if st.status.iter().all(|s| *s == Status::Finished) {
            return None;
        }
        let en: Vec<usize> = (0..st.status.len()).filter(|t| Self::enabled(&st, *t)).collect();
        if en.is_empty() {
            st.deadlock = true;
        }
        Some(en)
    }

    /// every live thread waits for a lock: the execution cannot be completed, report it and stop
    pub fn report_deadlock(&self) -> ! {
        let st = self.st.lock().unwrap();
        let waiting: Vec<String> = (0..st.status.len()).filter(|t| st.status[*t] != Status::Finished).map(|t| t.to_string()).collect();
        fatal_as(&st, "C05", &format!("deadlock: thread(s) {} wait for a lock that is never released (a thread blocks on a lock it holds itself, or the tree was torn down under a lock)", waiting.join(",")))
    }

    pub fn grant(&self, t: usize) {
        let mut st = self.st.lock().unwrap();
        st.granted = Some(t);
        st.grants.push(t);
        self.cv.notify_all();
    }

    pub fn take(&self) -> St {
        let mut st = self.st.lock().unwrap();
        St {
            grants: std::mem::take(&mut st.grants),
            status:  st.status.clone(),
            granted: None,
            locks:   HashMap::new(),
            trace:   std::mem::take(&mut st.trace),
            lockset_violations: std::mem::take(&mut st.lockset_violations),
            held:    vec![],
            deadlock: st.deadlock,
            live: std::mem::take(&mut st.live),
            heap_violations: std::mem::take(&mut st.heap_violations),
        }
    }
}

impl Hook for Sched {
    fn point(&self, p: Point) {
        match tid() {
            Some(t) => self.at_point(t, PointKind::Hook(p)),
            // the un-scheduled main thread only acts while every other thread is parked or gone
            None => self.st.lock().unwrap().trace.push((MAIN, Ev::Point(PointKind::Hook(p)))),
        }
    }

    fn note(&self, n: Note) {
        let t = tid().unwrap_or(MAIN);
        let mut st = self.st.lock().unwrap();
        let hi = if t == MAIN { st.held.len() - 1 } else { t };
        match n {
            Note::Alloc { ptr, .. } => {
                st.live.insert(ptr);
            }
            Note::Free { ptr, count_cell } => {
                if !st.live.remove(&ptr) {
                    let m = format!("{} block freed twice (or never allocated)", if count_cell { "count cell" } else { "NodeData" });
                    st.trace.push((t, Ev::Note(n)));
                    fatal(&st, &m);
                }
            }
            Note::Access { ptr } => {
                if !st.live.contains(&ptr) {
                    st.trace.push((t, Ev::Note(n)));
                    fatal(&st, "NodeData block accessed after it was freed");
                }
                // recorded once per run of accesses of a thread
                let dup = matches!(st.trace.last(), Some((u, Ev::Note(Note::Access { .. }))) if *u == t);
                if !dup {
                    st.trace.push((t, Ev::Note(n)));
                }
                return;
            }
            _ => {}
        }
        match n {
            Note::Acquired { addr, write, what } => {
                let l = st.locks.entry(addr).or_default();
                if write {
                    l.writer = Some(t);
                } else {
                    l.readers.push(t);
                }
                st.held[hi].push((addr, write, what));
            }
            Note::Released { addr, write, .. } => {
                if let Some(l) = st.locks.get_mut(&addr) {
                    if write {
                        l.writer = None;
                    } else if let Some(i) = l.readers.iter().position(|x| *x == t) {
                        l.readers.remove(i);
                    }
                }
                if let Some(i) = st.held[hi].iter().rposition(|h| h.0 == addr && h.1 == write) {
                    st.held[hi].remove(i);
                }
            }
            Note::SlotAccess { write, node, index } => {
                let ok = st.held[hi].iter().any(|h| h.2 == LockKind::Slot && (h.1 || !write));
                if !ok {
                    st.lockset_violations.push(format!("thread {} accesses slot {} of {:#x} (write={}) without its lock", t, index, node, write));
                }
            }
            Note::DataAccess { write, node } => {
                let ok = st.held[hi].iter().any(|h| h.2 == LockKind::Data && (h.1 || !write));
                if !ok {
                    st.lockset_violations.push(format!("thread {} accesses the data of {:#x} (write={}) without its lock", t, node, write));
                }
            }
            _ => {}
        }
        st.trace.push((t, Ev::Note(n)));
    }
}
