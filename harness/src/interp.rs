//! The op interpreter: executes protocol lines on the real crate, one canonical answer per line,
//! evaluates the implementation-side oracle, and collects the input distribution.
use crate::util::*;
use std::collections::BTreeMap;

#[derive(Default)]
pub struct Report {
    pub answers:  Vec<String>,
    /// `(case, line number (0-based in the ops file), property tag, what)`
    pub oracle:   Vec<(usize, usize, String, String)>,
    pub dist:     BTreeMap<String, u64>,
    /// per case: (case number, non-trivial?)
    pub cases:    Vec<(usize, bool)>,
}

impl Report {
    pub fn count(&mut self, key: &str) {
        *self.dist.entry(key.to_string()).or_insert(0) += 1;
    }
    pub fn add(&mut self, key: &str, n: u64) {
        *self.dist.entry(key.to_string()).or_insert(0) += n;
    }
}

pub struct Ctx<'a> {
    pub rep:      &'a mut Report,
    pub case:     usize,
    pub line:     usize,
    /// set by areas when the current case exercised the non-trivial branch of its rule
    pub nontriv:  &'a mut bool,
}

/// journal of oracle failures and of the line being executed, written through at once: if the library corrupts the heap and
/// the process dies, what was found until then (and where it died) survives
pub static JOURNAL: std::sync::Mutex<Option<std::fs::File>> = std::sync::Mutex::new(None);

pub fn journal(line: &str) {
    use std::io::Write;
    if let Some(f) = JOURNAL.lock().unwrap().as_mut() {
        let _ = writeln!(f, "{}", line);
        let _ = f.flush();
    }
}

impl Ctx<'_> {
    pub fn fail(&mut self, prop: &str, what: String) {
        // one line per failure in oracle.txt: panic messages and debug output may contain line breaks and tabs
        let what: String = what.chars().map(|c| if c == '\n' || c == '\r' || c == '\t' { ' ' } else { c }).collect();
        journal(&format!("{}\t{}\t{}\t{}", self.case, self.line, prop, what));
        self.rep.oracle.push((self.case, self.line, prop.to_string(), what));
    }
    pub fn count(&mut self, key: &str) {
        self.rep.count(key);
    }
    pub fn nontrivial(&mut self) {
        *self.nontriv = true;
    }
}

pub trait Area {
    /// `None` = not my op
    fn step(&mut self, ws: &[&str], cx: &mut Ctx<'_>) -> Option<String>;
    fn reset_case(&mut self);
}

pub struct Session {
    pub areas:     Vec<Box<dyn Area>>,
    pub threshold: usize,
}

pub fn run_ops(lines: &[String]) -> Report {
    run_ops_opt(lines, true)
}

/// `store = false`: answers are computed and dropped (allocation accounting)
pub fn run_ops_opt(lines: &[String], store: bool) -> Report {
    quiet_panics();
    let mut rep = Report::default();
    let mut areas: Vec<Box<dyn Area>> = vec![
        Box::new(crate::area_builder::BuilderArea::default()),
        Box::new(crate::area_intern::InternArea::default()),
    ];
    let mut case = 0usize;
    let mut nontriv = false;
    let mut in_case = false;
    clear_statics();
    cstree::verif::set_hash_mask(u32::MAX);
    for (ln, line) in lines.iter().enumerate() {
        let ws: Vec<&str> = line.trim().split(' ').collect();
        let ans = match ws.as_slice() {
            ["syn", k, h] => match (k.parse::<u32>(), unhex(h)) {
                (Ok(k), Some(t)) => {
                    set_static(k, &t);
                    "ok".to_string()
                }
                _ => "bad-op".to_string(),
            },
            ["unsyn", k] => match k.parse::<u32>() {
                Ok(k) => {
                    unset_static(k);
                    "ok".to_string()
                }
                _ => "bad-op".to_string(),
            },
            ["cfg", "mask", m] => match m.parse::<u32>() {
                Ok(m) => {
                    cstree::verif::set_hash_mask(m);
                    "ok".to_string()
                }
                _ => "bad-op".to_string(),
            },
            // these configure the model only (the harness binary *is* the debug or release build,
            // the code *has* its threshold / comparison behaviour); areas may read the threshold
            ["cfg", "threshold", n] => {
                if let Ok(n) = n.parse::<usize>() {
                    for a in areas.iter_mut() {
                        let mut dummy = false;
                        let mut cx = Ctx { rep: &mut rep, case, line: ln, nontriv: &mut dummy };
                        a.step(&["__threshold", &n.to_string()], &mut cx);
                    }
                }
                "ok".to_string()
            }
            ["cfg", _, _] => "ok".to_string(),
            ["case", n] => {
                if in_case && store {
                    rep.cases.push((case, nontriv));
                }
                case = n.parse().unwrap_or(0);
                // where the process is, should it die
                journal(&format!("@case\t{}\t{}", case, ln));
                nontriv = false;
                in_case = true;
                for a in areas.iter_mut() {
                    if let Err(m) = catch(|| a.reset_case()) {
                        let mut cx = Ctx { rep: &mut rep, case, line: ln, nontriv: &mut nontriv };
                        cx.fail("ANY", format!("dropping the objects of the previous case panicked: {}", m));
                    }
                }
                format!("case {}", n)
            }
            ["reset"] => {
                clear_statics();
                cstree::verif::set_hash_mask(u32::MAX);
                for a in areas.iter_mut() {
                    a.reset_case();
                }
                "ok".to_string()
            }
            _ => {
                let mut out = None;
                for a in areas.iter_mut() {
                    // an area catches the panics the crate is allowed to raise; anything that still escapes (the crate
                    // panicking where no panic is specified, or an answer the harness cannot digest) is reported, not fatal
                    let r = {
                        let mut cx = Ctx { rep: &mut rep, case, line: ln, nontriv: &mut nontriv };
                        catch(|| a.step(&ws, &mut cx))
                    };
                    match r {
                        Ok(Some(r)) => {
                            out = Some(r);
                            break;
                        }
                        Ok(None) => {}
                        Err(m) => {
                            let mut cx = Ctx { rep: &mut rep, case, line: ln, nontriv: &mut nontriv };
                            cx.fail("ANY", format!("`{}` panicked where no panic is specified: {}", line.trim(), m));
                            out = Some("uncaught-panic".to_string());
                            let _ = &m;
                            break;
                        }
                    }
                }
                out.unwrap_or_else(|| "bad-op".to_string())
            }
        };
        if store {
            rep.answers.push(ans);
        }
    }
    if in_case {
        rep.cases.push((case, nontriv));
    }
    for a in areas.iter_mut() {
        a.reset_case();
    }
    drop(areas);
    if !store {
        rep.cases.clear();
        rep.oracle.clear();
        rep.dist.clear();
    }
    rep
}
