mod stress;
mod facts;
mod area_builder;
mod area_green;
mod area_red;
mod area_serde;
mod area_text;
mod conc;
mod sched;
mod reftree;
mod area_intern;
mod gen;
mod gen_red;
mod interp;
mod util;

use std::io::Write;

#[global_allocator]
static ALLOC: util::Counting = util::Counting;

fn arg(args: &[String], name: &str) -> Option<String> {
    args.iter().position(|a| a == name).and_then(|i| args.get(i + 1).cloned())
}

fn main() {
    let args: Vec<String> = std::env::args().collect();
    match args.get(1).map(|s| s.as_str()) {
        Some("gen") => {
            let what = args.get(2).expect("gen <what>");
            let seed: u64 = arg(&args, "--seed").and_then(|s| s.parse().ok()).unwrap_or(0);
            let tier = arg(&args, "--tier").unwrap_or_else(|| "quick".into());
            let out = arg(&args, "--out").expect("--out FILE");
            let lines = gen::generate(what, seed, &tier);
            let mut f = std::io::BufWriter::new(std::fs::File::create(&out).unwrap());
            for l in lines {
                writeln!(f, "{}", l).unwrap();
            }
        }
        Some("run") => {
            let ops = args.get(2).expect("run <ops.txt>");
            let outdir = arg(&args, "--out").expect("--out DIR");
            let text = std::fs::read_to_string(ops).unwrap();
            let lines: Vec<String> = text.lines().map(|s| s.to_string()).collect();
            *interp::JOURNAL.lock().unwrap() = std::fs::File::create(format!("{}/oracle_live.txt", outdir)).ok();
            let rep = interp::run_ops(&lines);
            let mut f = std::io::BufWriter::new(std::fs::File::create(format!("{}/impl.txt", outdir)).unwrap());
            for a in &rep.answers {
                writeln!(f, "{}", a).unwrap();
            }
            let mut f = std::io::BufWriter::new(std::fs::File::create(format!("{}/oracle.txt", outdir)).unwrap());
            for (case, line, prop, what) in &rep.oracle {
                writeln!(f, "{}\t{}\t{}\t{}", case, line, prop, what).unwrap();
            }
            let mut f = std::io::BufWriter::new(std::fs::File::create(format!("{}/dist.json", outdir)).unwrap());
            let dist: serde_json::Value = serde_json::json!({
                "dist": rep.dist,
                "cases": rep.cases.len(),
                "nontrivial_cases": rep.cases.iter().filter(|c| c.1).map(|c| c.0).collect::<Vec<_>>(),
                "debug_build": cfg!(debug_assertions),
                "lasso_build": cfg!(feature = "lasso"),
            });
            writeln!(f, "{}", dist).unwrap();
        }
        Some("conc") => {
            let what = args.get(2).expect("conc <what>");
            let seed: u64 = arg(&args, "--seed").and_then(|s| s.parse().ok()).unwrap_or(0);
            let tier = arg(&args, "--tier").unwrap_or_else(|| "quick".into());
            let out = arg(&args, "--out").expect("--out DIR");
            if what == "intern" {
                stress::run(seed, &tier, &out);
            } else {
                conc::run_conc(what, seed, &tier, &out);
            }
        }
        Some("facts") => {
            let out = arg(&args, "--out").expect("--out FILE");
            facts::observe(&out);
        }
        Some("leakcheck") => {
            // run the session three times; after a warm-up the live byte count must not move
            let ops = args.get(2).expect("leakcheck <ops.txt>");
            let text = std::fs::read_to_string(ops).unwrap();
            let lines: Vec<String> = text.lines().map(|s| s.to_string()).collect();
            let mut live = vec![];
            for _ in 0..3 {
                let rep = interp::run_ops_opt(&lines, false);
                drop(rep);
                live.push(util::live_bytes());
            }
            println!("{{\"live_after_runs\": [{}, {}, {}], \"net_bytes\": {}}}", live[0], live[1], live[2], live[2] - live[1]);
            std::process::exit(if live[2] == live[1] { 0 } else { 1 });
        }
        _ => {
            eprintln!("usage: harness gen <what> --seed S --tier T --out FILE | harness run OPS --out DIR");
            std::process::exit(2);
        }
    }
}
