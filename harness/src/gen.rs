//! Case generators.  Every random choice derives from the seed; output is protocol lines.
use crate::area_builder::RefTree;
use crate::util::*;

pub const NODE_KINDS: [u32; 4] = [0, 1, 2, 3];
/// (kind, static text) of the session's syntax
pub const STATICS: [(u32, &str); 5] = [(12, "+"), (13, ""), (14, "é→"), (16, "ab"), (17, "+")];
pub const INTERNED_KINDS: [u32; 3] = [10, 11, 15];
pub const TEXTS: [&str; 12] = ["", "a", "b", "é", "ab", "+", "é→", "aa", "x→y", "日本", "a b", "\u{1F600}"];

pub fn header(out: &mut Vec<String>) {
    out.push("reset".into());
    for (k, t) in STATICS {
        out.push(format!("syn {} {}", k, hex(t)));
    }
}

pub fn emit_tree(t: &RefTree, out: &mut Vec<String>, rng: &mut Rng) {
    match t {
        RefTree::Tok(k, s) => {
            if static_kind(*k) && rng.chance(1, 2) {
                out.push(format!("stok {}", k));
            } else {
                out.push(format!("tok {} {}", k, hex(s)));
            }
        }
        RefTree::Node(k, cs) => {
            out.push(format!("start {}", k));
            for c in cs {
                emit_tree(c, out, rng);
            }
            out.push("finish_node".into());
        }
    }
}

/// the same events as `emit_tree`, on one line, for `wbuild`
pub fn compact_tree(t: &RefTree, rng: &mut Rng, out: &mut Vec<String>) {
    match t {
        RefTree::Tok(k, s) => {
            if static_kind(*k) && rng.chance(1, 2) {
                out.push(format!("k{}", k));
            } else {
                out.push(format!("t{}:{}", k, hex(s)));
            }
        }
        RefTree::Node(k, cs) => {
            out.push(format!("s{}", k));
            for c in cs {
                compact_tree(c, rng, out);
            }
            out.push("f".into());
        }
    }
}

pub fn static_kind(k: u32) -> bool {
    STATICS.iter().any(|(s, _)| *s == k)
}

pub fn random_token(rng: &mut Rng) -> RefTree {
    if rng.chance(1, 4) {
        let (k, t) = *rng.pick(&STATICS);
        RefTree::Tok(k, t.to_string())
    } else {
        let k = *rng.pick(&INTERNED_KINDS);
        let t = if rng.chance(1, 8) {
            let n = rng.below(12);
            (0..n).map(|_| *rng.pick(&['a', 'b', 'z', 'é', '→', ' ', '0', '\u{1F600}'])).collect::<String>()
        } else {
            rng.pick(&TEXTS).to_string()
        };
        RefTree::Tok(k, t)
    }
}

/// random tree with a pool of earlier sub-trees to force duplication; `budget` bounds the number
/// of elements generated (pool re-use does not count its inner elements, capped by `size`)
pub fn random_tree_b(rng: &mut Rng, depth: usize, max_width: usize, pool: &mut Vec<RefTree>, budget: &mut usize) -> RefTree {
    let k = *rng.pick(&NODE_KINDS);
    let width = if rng.chance(1, 10) { 0 } else { 1 + rng.below(max_width) };
    let mut cs = vec![];
    for _ in 0..width {
        if *budget == 0 {
            break;
        }
        *budget -= 1;
        if !pool.is_empty() && rng.chance(1, 3) {
            let p = rng.pick(pool).clone();
            let sz = size(&p);
            if sz <= *budget + 1 {
                *budget -= sz - 1;
                cs.push(p);
                continue;
            }
        }
        if depth > 0 && rng.chance(2, 5) {
            let sub = random_tree_b(rng, depth - 1, max_width, pool, budget);
            if pool.len() < 64 {
                pool.push(sub.clone());
            }
            cs.push(sub);
        } else {
            cs.push(random_token(rng));
        }
    }
    RefTree::Node(k, cs)
}

pub fn size(t: &RefTree) -> usize {
    match t {
        RefTree::Tok(..) => 1,
        RefTree::Node(_, cs) => 1 + cs.iter().map(size).sum::<usize>(),
    }
}

pub fn random_tree(rng: &mut Rng, depth: usize, max_width: usize, pool: &mut Vec<RefTree>) -> RefTree {
    let mut budget = 400;
    random_tree_b(rng, depth, max_width, pool, &mut budget)
}

/// a deep chain: depth `d`, one token at the bottom and one beside each level
pub fn deep_tree(rng: &mut Rng, d: usize) -> RefTree {
    let mut t = RefTree::Node(*rng.pick(&NODE_KINDS), vec![random_token(rng)]);
    for _ in 0..d {
        let mut cs = vec![t];
        if rng.chance(1, 2) {
            cs.push(random_token(rng));
        }
        if rng.chance(1, 3) {
            cs.insert(0, random_token(rng));
        }
        t = RefTree::Node(*rng.pick(&NODE_KINDS), cs);
    }
    t
}

/// all forests with exactly `n` elements over the small alphabets
pub fn forests(n: usize, toks: &[RefTree], kinds: &[u32], memo: &mut Vec<Option<Vec<Vec<RefTree>>>>) -> Vec<Vec<RefTree>> {
    if let Some(Some(v)) = memo.get(n) {
        return v.clone();
    }
    let mut res: Vec<Vec<RefTree>> = vec![];
    if n == 0 {
        res.push(vec![]);
    } else {
        // first element is a token, rest is a forest of n-1
        for rest in forests(n - 1, toks, kinds, memo) {
            for t in toks {
                let mut f = vec![t.clone()];
                f.extend(rest.iter().cloned());
                res.push(f);
            }
        }
        // first element is a node with m inner elements, rest has n-1-m
        for m in 0..n {
            let inner = forests(m, toks, kinds, memo);
            let rest = forests(n - 1 - m, toks, kinds, memo);
            for i in &inner {
                for r in &rest {
                    for k in kinds {
                        let mut f = vec![RefTree::Node(*k, i.clone())];
                        f.extend(r.iter().cloned());
                        res.push(f);
                    }
                }
            }
        }
    }
    while memo.len() <= n {
        memo.push(None);
    }
    memo[n] = Some(res.clone());
    res
}

pub fn small_trees(max_elems: usize, toks: &[RefTree], kinds: &[u32]) -> Vec<RefTree> {
    let mut memo = vec![];
    let mut out = vec![];
    for n in 0..max_elems {
        for f in forests(n, toks, kinds, &mut memo) {
            for k in kinds {
                out.push(RefTree::Node(*k, f.clone()));
            }
        }
    }
    out
}

fn after_finish(out: &mut Vec<String>, g: usize) {
    out.push(format!("heads g{}", g));
    out.push(format!("text g{}", g));
    out.push(format!("ids g{}", g));
}

/// the F1 witness: two one-token nodes with equal `(kind, text_len, child_hash)` (real Fx collision)
fn collision_case(out: &mut Vec<String>, case: &mut usize, backend: &str) {
    out.push(format!("case {}", *case));
    *case += 1;
    out.push(format!("cache {}", backend));
    out.push("builder c0".into());
    for l in [
        "start 0", "start 5", "tok 4 6161", "finish_node", "tok 7 6262", "tok 7 6363", "start 5",
        "tok 568332233 6464", "finish_node", "finish_node", "finish",
    ] {
        out.push(l.into());
    }
    after_finish(out, 0);
}

/// "collision squares": two different child lists X, Y with equal text length whose child hashes
/// collide (by the real Fx witness under no mask, by construction under a narrow mask), each wrapped in
/// two node kinds A and B, in every order, plus nested variants -- the shapes on which a cache that
/// confuses nodes with equal `(text_len, child_hash)` or equal children hands out a wrong node
fn collision_squares(out: &mut Vec<String>, case: &mut usize, rng: &mut Rng, tier: &str, bes: &[&str]) {
    let t = |k: u32, s: &str| RefTree::Tok(k, s.to_string());
    let n = |k: u32, cs: Vec<RefTree>| RefTree::Node(k, cs);
    let witness: Vec<(Vec<RefTree>, Vec<RefTree>)> = vec![(vec![t(4, "aa")], vec![t(568332233, "dd")])];
    let pool: Vec<Vec<RefTree>> = vec![
        vec![t(10, "a")],
        vec![t(10, "b")],
        vec![t(10, "a"), t(10, "b")],
        vec![t(10, "b"), t(10, "a")],
        vec![t(11, "é")],
        vec![t(10, "ab")],
        vec![n(2, vec![t(10, "a")]), t(10, "b")],
        // child lists that differ in token *kinds* only: two static kinds with the same text (no key at all), and the same
        // interned text under two kinds
        vec![t(12, "+")],
        vec![t(17, "+")],
        vec![t(18, "a")],
        vec![t(10, "a"), t(12, "+")],
        vec![t(18, "a"), t(17, "+")],
    ];
    let tl = |cs: &Vec<RefTree>| -> usize {
        fn l(t: &RefTree) -> usize {
            match t {
                RefTree::Tok(_, s) => s.len(),
                RefTree::Node(_, cs) => cs.iter().map(l).sum(),
            }
        }
        cs.iter().map(l).sum()
    };
    let mut pairs: Vec<(u32, Vec<RefTree>, Vec<RefTree>)> = vec![];
    for (x, y) in &witness {
        pairs.push((u32::MAX, x.clone(), y.clone()));
    }
    for mask in [0u32, 1, 3] {
        for i in 0..pool.len() {
            for j in 0..pool.len() {
                if i != j && tl(&pool[i]) == tl(&pool[j]) {
                    pairs.push((mask, pool[i].clone(), pool[j].clone()));
                }
            }
        }
    }
    let orders: Vec<Vec<usize>> = {
        let mut v = vec![];
        for a in 0..4 {
            for b in 0..4 {
                for c in 0..4 {
                    for d in 0..4 {
                        let p = vec![a, b, c, d];
                        let mut q = p.clone();
                        q.sort();
                        if q == vec![0, 1, 2, 3] {
                            v.push(p);
                        }
                    }
                }
            }
        }
        v
    };
    let per_pair = if tier == "thorough" { 24 } else { 6 };
    for (pi, (mask, x, y)) in pairs.iter().enumerate() {
        for (a, b) in [(0u32, 1u32), (5, 0)] {
            let four = [n(a, x.clone()), n(a, y.clone()), n(b, x.clone()), n(b, y.clone())];
            for k in 0..per_pair {
                let ord = if tier == "thorough" { &orders[k] } else { &orders[(pi * 7 + k * 5 + a as usize) % 24] };
                let mut shapes: Vec<RefTree> = vec![n(0, ord.iter().map(|i| four[*i].clone()).collect())];
                if k == 0 {
                    // nested: the colliding nodes one level down, inside otherwise identical parents
                    shapes.push(n(0, vec![n(b, vec![n(a, x.clone())]), n(b, vec![n(a, y.clone())]), n(b, vec![n(a, x.clone())])]));
                    shapes.push(n(0, vec![n(a, y.clone()), n(b, vec![n(a, x.clone()), n(a, y.clone())]), n(b, y.clone()), n(a, x.clone())]));
                }
                for sh in shapes {
                    out.push(format!("cfg mask {}", mask));
                    out.push(format!("case {}", *case));
                    *case += 1;
                    out.push(format!("cache {}", bes[*case % bes.len()]));
                    out.push("builder c0".into());
                    emit_tree(&sh, out, rng);
                    out.push("finish".into());
                    after_finish(out, 0);
                }
            }
        }
    }
    collision_multi(out, case, rng, tier, bes);
    out.push(format!("cfg mask {}", u32::MAX));
}

/// three and more different small nodes with one head (see `collision_squares`), each occurring several times, in two trees
/// through one cache
fn collision_multi(out: &mut Vec<String>, case: &mut usize, rng: &mut Rng, tier: &str, bes: &[&str]) {
    let t = |k: u32, s: &str| RefTree::Tok(k, s.to_string());
    let n = |k: u32, cs: Vec<RefTree>| RefTree::Node(k, cs);
    let pool: Vec<Vec<RefTree>> = vec![
        vec![t(10, "a")],
        vec![t(10, "b")],
        vec![t(10, "a"), t(10, "b")],
        vec![t(10, "b"), t(10, "a")],
        vec![t(11, "é")],
        vec![t(10, "ab")],
        vec![n(2, vec![t(10, "a")]), t(10, "b")],
        vec![t(12, "+")],
        vec![t(17, "+")],
        vec![t(18, "a")],
        vec![t(10, "a"), t(12, "+")],
        vec![t(18, "a"), t(17, "+")],
    ];
    let tl = |cs: &Vec<RefTree>| -> usize {
        fn l(t: &RefTree) -> usize {
            match t {
                RefTree::Tok(_, s) => s.len(),
                RefTree::Node(_, cs) => cs.iter().map(l).sum(),
            }
        }
        cs.iter().map(l).sum()
    };
    // three and more different small nodes with one head, each occurring several times (the overflow list of the node cache
    // then holds more than one node of that head): every repeat must be answered with the first allocation of its kind
    let n_multi = if tier == "thorough" { 120 } else { 24 };
    for k in 0..n_multi {
        let mask = [0u32, 1, 3][k % 3];
        // all child lists of one text length
        let want = [1usize, 2][(k / 3) % 2];
        let same: Vec<&Vec<RefTree>> = pool.iter().filter(|cs| tl(cs) == want).collect();
        if same.len() < 3 {
            continue;
        }
        let cnt = 3 + rng.below(same.len().min(5) - 2);
        let mut idx: Vec<usize> = (0..same.len()).collect();
        for a in (1..idx.len()).rev() {
            let b = rng.below(a + 1);
            idx.swap(a, b);
        }
        let chosen: Vec<&Vec<RefTree>> = idx[..cnt].iter().map(|i| same[*i]).collect();
        let kind = [1u32, 5][k % 2];
        let mut kids = vec![];
        // first occurrences in order, then repeats in a shuffled order, twice
        for c in &chosen {
            kids.push(n(kind, (*c).clone()));
        }
        for _ in 0..2 {
            let mut order: Vec<usize> = (0..cnt).collect();
            for a in (1..order.len()).rev() {
                let b = rng.below(a + 1);
                order.swap(a, b);
            }
            for o in order {
                kids.push(n(kind, chosen[o].clone()));
            }
        }
        // empty nodes collide with each other without any mask: (k, 0, hash of nothing / of empty children)
        let z = n(0, vec![]);
        let fam = [n(kind, vec![]), n(kind, vec![z.clone()]), n(kind, vec![z.clone(), z.clone()])];
        if k % 4 == 0 {
            kids = vec![fam[0].clone(), fam[1].clone(), fam[2].clone(), fam[2].clone(), fam[1].clone(), fam[2].clone(), fam[0].clone()];
        }
        for (ti, sh) in [n(0, kids.clone()), n(0, kids.iter().rev().cloned().collect())].into_iter().enumerate() {
            if ti == 0 {
                out.push(format!("cfg mask {}", if k % 4 == 0 { u32::MAX } else { mask }));
                out.push(format!("case {}", *case));
                *case += 1;
                out.push(format!("cache {}", bes[*case % bes.len()]));
            }
            // the second tree goes through the same cache: its nodes are all repeats
            out.push("builder c0".into());
            emit_tree(&sh, out, rng);
            out.push("finish".into());
            after_finish(out, ti);
        }
    }
    out.push(format!("cfg mask {}", u32::MAX));
}

pub fn gen_build(seed: u64, tier: &str) -> Vec<String> {
    let mut rng = Rng::new(seed ^ 0xC01);
    let mut out = vec![];
    header(&mut out);
    let mut case = 0usize;
    let bes = backends();
    for b in &bes {
        collision_case(&mut out, &mut case, b);
    }
    collision_squares(&mut out, &mut case, &mut rng, tier, &bes);
    // bounded-exhaustive small trees
    let toks = vec![
        RefTree::Tok(10, "a".into()),
        RefTree::Tok(10, "".into()),
        RefTree::Tok(12, "+".into()),
        RefTree::Tok(13, "".into()),
        RefTree::Tok(11, "é".into()),
        RefTree::Tok(15, "+".into()),
    ];
    let max = if tier == "thorough" { 5 } else { 4 };
    for t in small_trees(max, &toks, &[0, 1]) {
        out.push(format!("case {}", case));
        case += 1;
        out.push(format!("cache {}", bes[case % bes.len()]));
        out.push("builder c0".into());
        emit_tree(&t, &mut out, &mut rng);
        out.push("finish".into());
        after_finish(&mut out, 0);
    }
    // random, with duplication, under several hash masks (forced head collisions)
    let n_random = if tier == "thorough" { 3000 } else { 300 };
    let masks: [u32; 6] = [u32::MAX, u32::MAX, 0, 1, 3, 15];
    for i in 0..n_random {
        let mask = masks[i % masks.len()];
        out.push(format!("cfg mask {}", mask));
        out.push(format!("case {}", case));
        case += 1;
        out.push(format!("cache {}", bes[i % bes.len()]));
        out.push("builder c0".into());
        let mut pool = vec![];
        let depth = 1 + rng.below(6);
        let width = if i % 17 == 0 { 64 } else { 1 + rng.below(6) };
        let t = if i % 50 == 7 { deep_tree(&mut rng, 200) } else { random_tree(&mut rng, depth, width, &mut pool) };
        emit_tree(&t, &mut out, &mut rng);
        out.push("finish".into());
        after_finish(&mut out, 0);
    }
    out.push(format!("cfg mask {}", u32::MAX));
    // (a) a builder that only borrows the cache is abandoned half-way (a parser giving up): the next builder on that cache must
    //     start from nothing; (b) speculative parsing: a sub-tree is built, kept, built again behind a checkpoint, reverted and
    //     built once more -- the three must be one allocation (`ids`), the revert must not cost the cache anything;
    //     (c) a node and a token at the same position one level below two otherwise equal small nodes whose heads collide
    //     (mask 0): the second must not be answered with the first
    let n_fam = if tier == "thorough" { 120 } else { 24 };
    for i in 0..n_fam {
        let mut pool = vec![];
        let (d1, w1, d2, w2) = (1 + rng.below(3), 1 + rng.below(4), 1 + rng.below(3), 1 + rng.below(4));
        let t1 = random_tree(&mut rng, d1, w1, &mut pool);
        let t2 = random_tree(&mut rng, d2, w2, &mut pool);
        out.push(format!("case {}", case));
        case += 1;
        out.push("cache user".into());
        match i % 3 {
            0 => {
                // (a)
                let mut evs = vec![];
                compact_tree(&t1, &mut rng, &mut evs);
                let cut = 1 + rng.below(evs.len().max(2) - 1);
                out.push(format!("wabandon c0 {}", evs[..cut].join(",")));
                out.push("builder c0".into());
                emit_tree(&t2, &mut out, &mut rng);
                out.push("finish".into());
                after_finish(&mut out, 0);
                let mut evs2 = vec![];
                compact_tree(&t1, &mut rng, &mut evs2);
                out.push(format!("wabandon c0 {}", evs2[..1.max(evs2.len() / 2)].join(",")));
                let mut evs3 = vec![];
                compact_tree(&t1, &mut rng, &mut evs3);
                out.push(format!("wbuild with_cache c0 {}", evs3.join(",")));
                after_finish(&mut out, 1);
            }
            1 => {
                // (b)
                let x = RefTree::Node(1, vec![RefTree::Tok(10, TEXTS[1 + i % 8].into()), RefTree::Tok(12, "+".into())]);
                out.push("builder c0".into());
                out.push("start 0".into());
                emit_tree(&x, &mut out, &mut rng);
                out.push("cp".into()); // k0
                emit_tree(&x, &mut out, &mut rng);
                emit_tree(&t1, &mut out, &mut rng);
                out.push("revert k0".into());
                emit_tree(&x, &mut out, &mut rng);
                out.push("cp".into()); // k1
                emit_tree(&t2, &mut out, &mut rng);
                out.push("revert k1".into());
                emit_tree(&x, &mut out, &mut rng);
                out.push("finish_node".into());
                out.push("finish".into());
                after_finish(&mut out, 0);
                out.push("builder c0".into());
                out.push("start 0".into());
                emit_tree(&x, &mut out, &mut rng);
                out.push("finish_node".into());
                out.push("finish".into());
                after_finish(&mut out, 1);
            }
            _ => {
                // (c)
                out.push("cfg mask 0".into());
                let leaf = RefTree::Tok(10, TEXTS[1 + i % 8].into());
                let with_node = RefTree::Node(2, vec![RefTree::Node(3, vec![leaf.clone()])]);
                let with_tok = RefTree::Node(2, vec![leaf.clone()]);
                for (gi, inner) in [&with_node, &with_tok, &with_node, &with_tok].iter().enumerate() {
                    out.push("builder c0".into());
                    emit_tree(&RefTree::Node(0, vec![RefTree::Node(1, vec![(*inner).clone()])]), &mut out, &mut rng);
                    out.push("finish".into());
                    after_finish(&mut out, gi);
                }
                out.push(format!("cfg mask {}", u32::MAX));
            }
        }
    }
    out
}

/// C04: histories of several trees through one long-lived cache
pub fn gen_history(seed: u64, tier: &str) -> Vec<String> {
    let mut rng = Rng::new(seed ^ 0xC04);
    let mut out = vec![];
    header(&mut out);
    let mut case = 0usize;
    let bes = backends();
    // the collision witness spread over two trees of one cache
    for b in &bes {
        out.push(format!("case {}", case));
        case += 1;
        out.push(format!("cache {}", b));
        out.push("builder c0".into());
        for l in ["start 0", "start 5", "tok 4 6161", "finish_node", "tok 7 6262", "tok 7 6363", "finish_node", "finish"] {
            out.push(l.into());
        }
        after_finish(&mut out, 0);
        out.push("builder c0".into());
        for l in ["start 0", "start 5", "tok 568332233 6464", "finish_node", "finish_node", "finish"] {
            out.push(l.into());
        }
        after_finish(&mut out, 1);
        out.push("dump g0".into());
    }
    // long tokens: sharing does not depend on the length of a token's text (around powers of two up to 4 KiB, in bytes:
    // one- and two-byte characters); the root is too wide to be cached itself, so each of its tokens is looked up
    {
        let lens: &[usize] = if tier == "thorough" {
            &[15, 16, 17, 31, 32, 33, 63, 64, 65, 127, 128, 129, 130, 255, 256, 257, 511, 512, 513, 1023, 1024, 1025, 4095, 4096, 4097, 65535, 65536, 65537]
        } else {
            &[16, 64, 127, 128, 129, 130, 256, 257, 1024, 1025, 4096, 4097]
        };
        for (bi, b) in bes.iter().enumerate() {
            out.push(format!("case {}", case));
            case += 1;
            out.push(format!("cache {}", b));
            let mut g = 0;
            for (li, len) in lens.iter().enumerate() {
                if (li + bi) % 2 == 1 && tier != "thorough" {
                    continue;
                }
                let text = if li % 2 == 0 { "c".repeat(*len) } else { format!("{}{}", "é".repeat(len / 2), if len % 2 == 1 { "x" } else { "" }) };
                for _round in 0..2 {
                    out.push("builder c0".into());
                    out.push("start 0".into());
                    for _ in 0..3 {
                        out.push(format!("tok 11 {}", hex(&text)));
                    }
                    out.push("start 1".into());
                    out.push(format!("tok 11 {}", hex(&text)));
                    out.push("finish_node".into());
                    out.push(format!("tok 10 {}", hex(&text)));
                    out.push("finish_node".into());
                    out.push("finish".into());
                    after_finish(&mut out, g);
                    g += 1;
                }
            }
        }
    }
    let n = if tier == "thorough" { 4000 } else { 400 };
    let masks: [u32; 5] = [u32::MAX, u32::MAX, 1, 3, 0];
    for i in 0..n {
        let mask = masks[i % masks.len()];
        out.push(format!("cfg mask {}", mask));
        out.push(format!("case {}", case));
        case += 1;
        out.push(format!("cache {}", bes[i % bes.len()]));
        let trees = 2 + rng.below(if tier == "thorough" { 20 } else { 7 });
        let mut pool: Vec<RefTree> = vec![];
        for g in 0..trees {
            out.push("builder c0".into());
            let t = if g > 0 && rng.chance(1, 4) {
                // rebuild an earlier sub-tree as a root: everything in it must be shared
                let p = rng.pick(&pool).clone();
                match p {
                    RefTree::Node(..) => p,
                    t => RefTree::Node(0, vec![t]),
                }
            } else {
                let (d, w) = (1 + rng.below(4), 1 + rng.below(4));
                random_tree(&mut rng, d, w, &mut pool)
            };
            pool.push(t.clone());
            // every third history also goes through the borrowing / consuming constructors of the builder
            let how = if i % 3 == 1 { ["", "with_cache", "with_cache", "with_interner", "from_interner"][rng.below(5)] } else { "" };
            if how.is_empty() {
                emit_tree(&t, &mut out, &mut rng);
                out.push("finish".into());
            } else {
                // the builder line opened above is not used for this tree
                out.pop();
                let mut evs = vec![];
                compact_tree(&t, &mut rng, &mut evs);
                out.push(format!("wbuild {} c0 {}", how, evs.join(",")));
            }
            after_finish(&mut out, g);
        }
        for g in 0..trees {
            out.push(format!("dump g{}", g));
        }
        // a cache is not tied to one `Syntax`: a second dialect gives a static kind a text of another length and
        // builds through the same cache (the table of the session's syntax is switched and switched back; the
        // earlier trees are not read while it is)
        if i % 4 == 2 {
            let (sk, old) = *rng.pick(&STATICS[..]);
            let alt = *rng.pick(&["=>", "", "and", "é"]);
            if alt.len() != old.len() {
                let leaf = |rng: &mut Rng| RefTree::Tok(INTERNED_KINDS[rng.below(3)], rng.pick(&TEXTS[..]).to_string());
                // the same shapes under both dialects, so that everything but the static token is a cache hit
                let shapes = |txt: &str, a: &RefTree, b: &RefTree| {
                    RefTree::Node(0, vec![a.clone(), RefTree::Tok(sk, txt.to_string()), RefTree::Node(1, vec![RefTree::Tok(sk, txt.to_string()), b.clone()]), RefTree::Tok(sk, txt.to_string())])
                };
                let (a, b) = (leaf(&mut rng), leaf(&mut rng));
                let mut g = trees;
                for (txt, switch) in [(old, false), (alt, true)] {
                    if switch {
                        out.push(format!("syn {} {}", sk, hex(txt)));
                    }
                    let t = shapes(txt, &a, &b);
                    let mut evs = vec![];
                    // static kinds only through `static_token`: the text is the dialect's
                    compact_tree_static(&t, &mut evs);
                    if rng.chance(1, 2) {
                        out.push(format!("wbuild with_cache c0 {}", evs.join(",")));
                    } else {
                        out.push("builder c0".into());
                        for e in &evs {
                            out.push(match e.as_bytes()[0] {
                                b's' => format!("start {}", &e[1..]),
                                b'k' => format!("stok {}", &e[1..]),
                                b't' => { let (k, h) = e[1..].split_once(':').unwrap(); format!("tok {} {}", k, h) }
                                _ => "finish_node".into(),
                            });
                        }
                        out.push("finish".into());
                    }
                    after_finish(&mut out, g);
                    out.push(format!("dump g{}", g));
                    g += 1;
                }
                out.push(format!("syn {} {}", sk, hex(old)));
            }
        }
    }
    collision_multi(&mut out, &mut case, &mut rng, tier, &bes);
    out.push(format!("cfg mask {}", u32::MAX));
    out
}

/// `compact_tree` with every static kind emitted as `static_token`
pub fn compact_tree_static(t: &RefTree, out: &mut Vec<String>) {
    match t {
        RefTree::Tok(k, s) => {
            if static_kind(*k) {
                out.push(format!("k{}", k));
            } else {
                out.push(format!("t{}:{}", k, hex(s)));
            }
        }
        RefTree::Node(k, cs) => {
            out.push(format!("s{}", k));
            for c in cs {
                compact_tree_static(c, out);
            }
            out.push("f".into());
        }
    }
}

/// C10: intern/resolve sequences over every back end, raw key probes
pub fn gen_intern(seed: u64, tier: &str) -> Vec<String> {
    let mut rng = Rng::new(seed ^ 0xC10);
    let mut out = vec![];
    header(&mut out);
    let mut case = 0usize;
    let alpha = ["", "a", "b", "é", "ab"];
    let bes = backends();
    // raw conversion probes
    out.push(format!("case {}", case));
    case += 1;
    for r in [0u64, 1, 2, 254, 255, 256, 65534, 65535, 65536, 1 << 31, (1 << 32) - 3, (1 << 32) - 2, (1 << 32) - 1] {
        out.push(format!("rawkey {}", r));
    }
    for _ in 0..200 {
        out.push(format!("rawkey {}", rng.next() as u32));
    }
    if cfg!(feature = "lasso") {
        for r in [0u64, 1, (1 << 32) - 2, (1 << 32) - 1, 1 << 32, (1 << 32) + 1, 1 << 40, u64::MAX] {
            out.push(format!("usizekey {}", r));
        }
    }
    // exhaustive short sequences
    let len = if tier == "thorough" { 5 } else { 4 };
    let total = alpha.len().pow(len as u32);
    for b in &bes {
        for code in 0..total {
            out.push(format!("case {}", case));
            case += 1;
            out.push(format!("interner {}", b));
            let mut c = code;
            for j in 0..len {
                let s = alpha[c % alpha.len()];
                c /= alpha.len();
                let op = if (code + j) % 2 == 0 { "intern" } else { "intern_nt" };
                out.push(format!("{} i0 {}", op, hex(s)));
            }
            for r in 0..(len as u32 + 1) {
                out.push(format!("resolve i0 {}", r));
            }
        }
    }
    // volume: several KiB of distinct text per back end (growth of the arena behind the interner)
    for b in &bes {
        if *b == "rodeo_micro" {
            continue;
        }
        out.push(format!("case {}", case));
        case += 1;
        out.push(format!("interner {}", b));
        let n = if tier == "thorough" { 3000 } else { 700 };
        for k in 0..n {
            let s = format!("identifier_{:05}_{}", k, "x".repeat(k % 7));
            out.push(format!("intern i0 {}", hex(&s)));
            if k % 97 == 0 {
                out.push(format!("intern i0 {}", hex(&format!("identifier_{:05}_", k / 2))));
            }
        }
    }
    // look-alikes under truncation: single characters (and short strings) whose code points / bytes agree in the low byte,
    // the low 16 bits, the first or the last byte, or the length -- whatever shortcut a back end keys on besides the
    // string itself, two different strings must get two keys and resolve to themselves, in either order of arrival
    {
        let mut groups: Vec<Vec<String>> = vec![];
        for base in ['-', 'a', '\0', '\u{7f}', '\u{ff}', '0'] {
            let mut g = vec![base.to_string()];
            for add in [0x100u32, 0x200, 0x4E00, 0xFF00, 0x1_0000, 0x2_0000, 0x1_F600 - 0x2D] {
                if let Some(c) = char::from_u32(base as u32 + add) {
                    g.push(c.to_string());
                }
            }
            groups.push(g);
        }
        groups.push(vec!["ab".into(), "ba".into(), "a".into(), "b".into(), "abab".into(), "aabb".into(), "ab\0".into(), "\0ab".into()]);
        groups.push(vec!["é".into(), "\u{c3}".into(), "\u{a9}".into(), "\u{c3}\u{a9}".into(), "e\u{301}".into()]);
        // corpus of past failures: two 16-byte texts with the same 64-bit Fx hash (rustc-hash 2.1 string hash; found by a seeded change's
        // author from a symmetry of that hash, round 7) -- a back end that takes the hash for the string merges them
        groups.push(vec!["PĹm:tQzPĹm:tQG".into(), "ǿj뜔wpǿj뜔wM".into(), "PĹm:tQzPĹm:tQz".into()]);
        for b in &bes {
            for (gi, g) in groups.iter().enumerate() {
                for rev in [false, true] {
                    out.push(format!("case {}", case));
                    case += 1;
                    out.push(format!("interner {}", b));
                    let mut order: Vec<&String> = g.iter().collect();
                    if rev {
                        order.reverse();
                    }
                    for (j, s) in order.iter().enumerate() {
                        let op = if (gi + j) % 2 == 0 { "intern" } else { "intern_nt" };
                        out.push(format!("{} i0 {}", op, hex(s)));
                    }
                    for s in &order {
                        out.push(format!("intern i0 {}", hex(s)));
                    }
                    for r in 0..(g.len() as u32 + 1) {
                        out.push(format!("resolve i0 {}", r));
                    }
                }
            }
        }
    }
    // random long sequences, incl. exhaustion of the small foreign key types
    let n = if tier == "thorough" { 40 } else { 8 };
    for i in 0..n {
        for b in &bes {
            out.push(format!("case {}", case));
            case += 1;
            out.push(format!("interner {}", b));
            // (exhausting the 16-bit key space of `rodeo_mini` needs 65536 strings: the list-based model then makes the
            // run take many minutes; the 8-bit `rodeo_micro` goes through the same code of the crate)
            let _ = i;
            let distinct = if *b == "rodeo_micro" { 300 } else if *b == "rodeo_mini" && tier == "thorough" { 2000 + rng.below(2000) } else { 50 + rng.below(400) };
            let ops = distinct * 2;
            for _ in 0..ops {
                let k = rng.below(distinct);
                let s = match k % 4 {
                    0 => format!("s{}", k),
                    1 => format!("é{}→", k),
                    2 => format!("{}", k),
                    _ => format!("日本{}", k),
                };
                let op = if rng.chance(1, 2) { "intern" } else { "intern_nt" };
                out.push(format!("{} i0 {}", op, hex(&s)));
                if rng.chance(1, 6) {
                    out.push(format!("resolve i0 {}", rng.below(distinct + 5)));
                }
            }
        }
    }
    out
}

/// C09: operation sequences with checkpoints
fn cp_alphabet(ncps: usize) -> Vec<String> {
    let mut v = vec!["start 0".to_string(), "tok 10 61".to_string(), "finish_node".to_string()];
    if ncps < 2 {
        v.push("cp".to_string());
    }
    for j in 0..ncps {
        v.push(format!("start_at k{} 1", j));
        v.push(format!("revert k{}", j));
    }
    v
}

fn cp_enumerate(len: usize, prefix: &mut Vec<String>, ncps: usize, out: &mut Vec<String>, case: &mut usize) {
    // emit the sequence built so far (every prefix is a case of its own length)
    if prefix.len() == len {
        out.push(format!("case {}", *case));
        *case += 1;
        out.push("cache user".into());
        out.push("builder c0".into());
        out.push("start 0".into());
        out.extend(prefix.iter().cloned());
        out.push("finish_node".into());
        out.push("finish".into());
        return;
    }
    for op in cp_alphabet(ncps) {
        let n2 = if op == "cp" { ncps + 1 } else { ncps };
        prefix.push(op);
        cp_enumerate(len, prefix, n2, out, case);
        prefix.pop();
    }
}

/// a random parser-like walk over one builder (`builder c0` has been emitted): tokens, nested nodes, checkpoints that are
/// mostly used validly (wrapped / reverted at the depth they were taken at), sometimes not; ends with `finish`.
/// `mismatch`: now and then a static kind is given a text that is not its static text (a documented misuse that only debug
/// builds reject; optimised builds must still produce a consistent tree)
pub fn parser_walk(rng: &mut Rng, len: usize, mismatch: bool, out: &mut Vec<String>) {
    out.push("start 0".into());
    let mut depth = 1usize; // open nodes
    let mut cps: Vec<(usize, usize)> = vec![]; // (index, depth at creation)
    let mut ncp = 0usize;
    for _ in 0..len {
        let r = rng.below(100);
        if r < 30 {
            if mismatch && rng.chance(1, 8) {
                out.push(format!("tok {} {}", *rng.pick(&[12u32, 14, 16][..]), hex(*rng.pick(&["ab", "é→é", "x", ""][..]))));
            } else {
                out.push(format!("tok {} {}", *rng.pick(&[10u32, 11, 12, 13, 15][..]), hex(*rng.pick(&TEXTS[..]))));
            }
        } else if r < 45 {
            out.push(format!("start {}", rng.below(4)));
            depth += 1;
        } else if r < 60 {
            if depth > 1 || rng.chance(1, 10) {
                out.push("finish_node".into());
                depth = depth.saturating_sub(1);
            }
        } else if r < 75 {
            out.push("cp".into());
            cps.push((ncp, depth));
            ncp += 1;
        } else if !cps.is_empty() {
            // mostly use a recent checkpoint taken at the current depth (valid), sometimes any
            let cand: Vec<(usize, usize)> = cps.iter().cloned().filter(|c| c.1 == depth).collect();
            let (j, d) = if !cand.is_empty() && rng.chance(4, 5) { *rng.pick(&cand) } else { *rng.pick(&cps) };
            if rng.chance(1, 2) {
                out.push(format!("start_at k{} {}", j, rng.below(4)));
                if d == depth {
                    depth += 1;
                }
            } else {
                out.push(format!("revert k{}", j));
                if d <= depth {
                    depth = d;
                }
            }
        }
    }
    for _ in 0..depth {
        out.push("finish_node".into());
    }
    out.push("finish".into());
}

pub fn gen_checkpoints(seed: u64, tier: &str) -> Vec<String> {
    let mut rng = Rng::new(seed ^ 0xC09);
    let mut out = vec![];
    header(&mut out);
    let mut case = 0usize;
    // corpus: the documented usage patterns and the known-problematic one
    for seq in [
        vec!["start 0", "cp", "tok 10 61", "start 2", "revert k0", "tok 10 62", "finish_node", "finish"],
        vec!["start 0", "cp", "tok 10 61", "start_at k0 1", "tok 10 62", "finish_node", "finish_node", "finish"],
        vec!["start 0", "tok 10 61", "cp", "start 1", "tok 10 62", "finish_node", "start 2", "revert k0", "finish_node", "finish"],
        vec!["start 0", "cp", "cp", "tok 10 61", "revert k1", "start_at k0 1", "finish_node", "finish_node", "finish"],
    ] {
        out.push(format!("case {}", case));
        case += 1;
        out.push("cache user".into());
        out.push("builder c0".into());
        for l in seq {
            out.push(l.to_string());
        }
    }
    let maxlen = if tier == "thorough" { 6 } else { 5 };
    for len in 1..=maxlen {
        cp_enumerate(len, &mut vec![], 0, &mut out, &mut case);
    }
    // random parser-like walks, mostly valid
    let n = if tier == "thorough" { 20000 } else { 1500 };
    let bes = backends();
    for i in 0..n {
        out.push(format!("case {}", case));
        case += 1;
        out.push(format!("cache {}", bes[i % bes.len()]));
        out.push("builder c0".into());
        let len = 5 + rng.below(if tier == "thorough" { 200 } else { 60 });
        parser_walk(&mut rng, len, false, &mut out);
    }
    // great nesting depths (around the 8-, 16- and 17-bit boundaries of a depth counter)
    out.push(format!("case {}", case));
    case += 1;
    for n in [0usize, 1, 255, 256, 257, 65535, 65536, 65537, 70000, 131072, 131073] {
        out.push(format!("deepcp {}", n));
    }
    if tier == "thorough" {
        // the same history through the protocol, against the model
        for n in [65537usize] {
            out.push(format!("case {}", case));
            case += 1;
            out.push("cache user".into());
            out.push("builder c0".into());
            for _ in 0..n {
                out.push("start 0".into());
            }
            for l in ["cp", "tok 10 61", "revert k0", "tok 10 62", "cp", "tok 10 63", "start_at k1 2", "finish_node", "finish_node", "finish_node"] {
                out.push(l.to_string());
            }
        }
    }
    out
}

/// C20: event sequences with an injected interner failure before token positions
fn emit_tree_faulty(t: &RefTree, out: &mut Vec<String>, rng: &mut Rng, fault_at: &dyn Fn(usize) -> usize, pos: &mut usize) {
    match t {
        RefTree::Tok(k, s) => {
            // `fault_at(pos)` = how many consecutive injected failures precede this token
            let n = fault_at(*pos);
            *pos += 1;
            for _ in 0..n {
                out.push("failnext".into());
                out.push(format!("tok {} {}", k, hex(s)));
            }
            if static_kind(*k) && rng.chance(1, 2) {
                out.push(format!("stok {}", k));
            } else {
                out.push(format!("tok {} {}", k, hex(s)));
            }
        }
        RefTree::Node(k, cs) => {
            out.push(format!("start {}", k));
            for c in cs {
                emit_tree_faulty(c, out, rng, fault_at, pos);
            }
            out.push("finish_node".into());
        }
    }
}

fn count_tokens(t: &RefTree) -> usize {
    match t {
        RefTree::Tok(..) => 1,
        RefTree::Node(_, cs) => cs.iter().map(count_tokens).sum(),
    }
}

pub fn gen_faults(seed: u64, tier: &str) -> Vec<String> {
    let mut rng = Rng::new(seed ^ 0xC20);
    let mut out = vec![];
    header(&mut out);
    let mut case = 0usize;
    let bes: Vec<&str> = backends().into_iter().filter(|b| !b.ends_with("ref")).collect();
    let toks = vec![
        RefTree::Tok(10, "a".into()),
        RefTree::Tok(10, "".into()),
        RefTree::Tok(12, "+".into()),
        RefTree::Tok(11, "é".into()),
    ];
    let max = if tier == "thorough" { 5 } else { 4 };
    let mut emit_case = |t: &RefTree, faults: &dyn Fn(usize) -> usize, out: &mut Vec<String>, rng: &mut Rng, case: &mut usize| {
        out.push(format!("case {}", *case));
        *case += 1;
        out.push(format!("cache {}", bes[*case % bes.len()]));
        out.push("builder c0".into());
        let mut pos = 0;
        emit_tree_faulty(t, out, rng, faults, &mut pos);
        out.push("finish".into());
        after_finish(out, 0);
        // the cache must be as if the failed tokens had never been offered: rebuild without faults
        out.push("builder c0".into());
        let mut pos = 0;
        emit_tree_faulty(t, out, rng, &|_| 0, &mut pos);
        out.push("finish".into());
        after_finish(out, 1);
    };
    for t in small_trees(max, &toks, &[0, 1]) {
        let n = count_tokens(&t);
        for p in 0..n {
            emit_case(&t, &|i| if i == p { 1 } else { 0 }, &mut out, &mut rng, &mut case);
        }
        if n >= 2 {
            emit_case(&t, &|_| 1, &mut out, &mut rng, &mut case);
            emit_case(&t, &|i| if i == 0 { 2 } else { 0 }, &mut out, &mut rng, &mut case);
        }
    }
    let n = if tier == "thorough" { 3000 } else { 300 };
    for i in 0..n {
        let mut pool = vec![];
        let (d, w) = (1 + rng.below(5), 1 + rng.below(5));
        let t = random_tree(&mut rng, d, w, &mut pool);
        let r = rng.next();
        let modulus = 2 + (i % 5) as u64;
        emit_case(&t, &|p| if (r >> (p % 60)) % modulus == 0 { 1 + (p % 2) } else { 0 }, &mut out, &mut rng, &mut case);
    }
    out
}

/// single-edit mutant of a tree
fn mutate(t: &RefTree, rng: &mut Rng) -> RefTree {
    fn paths(t: &RefTree, cur: &mut Vec<usize>, out: &mut Vec<Vec<usize>>) {
        out.push(cur.clone());
        if let RefTree::Node(_, cs) = t {
            for (i, c) in cs.iter().enumerate() {
                cur.push(i);
                paths(c, cur, out);
                cur.pop();
            }
        }
    }
    fn edit(t: &RefTree, path: &[usize], rng: &mut Rng) -> RefTree {
        match (t, path) {
            (RefTree::Tok(k, s), []) => {
                if static_kind(*k) || rng.chance(1, 3) {
                    // change the kind (to an interned kind, keeping the text)
                    let nk = if *k == 10 { 11 } else { 10 };
                    RefTree::Tok(nk, s.clone())
                } else {
                    let mut s2 = s.clone();
                    if s2.is_empty() || rng.chance(1, 2) { s2.push('x') } else { s2.pop(); }
                    RefTree::Tok(*k, s2)
                }
            }
            (RefTree::Node(k, cs), []) => {
                let mut cs2 = cs.clone();
                match rng.below(4) {
                    0 => return RefTree::Node((*k + 1) % 4, cs2),
                    1 => cs2.insert(rng.below(cs.len() + 1), random_token(rng)),
                    2 if !cs2.is_empty() => {
                        cs2.remove(rng.below(cs.len()));
                    }
                    3 if cs2.len() >= 2 => {
                        let i = rng.below(cs.len() - 1);
                        cs2.swap(i, i + 1);
                    }
                    _ => cs2.push(RefTree::Node(3, vec![])),
                }
                RefTree::Node(*k, cs2)
            }
            (RefTree::Node(k, cs), [i, rest @ ..]) => {
                let mut cs2 = cs.clone();
                cs2[*i] = edit(&cs[*i], rest, rng);
                RefTree::Node(*k, cs2)
            }
            (t, _) => t.clone(),
        }
    }
    let mut ps = vec![];
    paths(t, &mut vec![], &mut ps);
    let p = rng.pick(&ps).clone();
    edit(t, &p, rng)
}

fn node_paths(t: &RefTree, cur: &mut Vec<usize>, out: &mut Vec<(Vec<usize>, usize)>) {
    if let RefTree::Node(_, cs) = t {
        out.push((cur.clone(), cs.len()));
        for (i, c) in cs.iter().enumerate() {
            cur.push(i);
            node_paths(c, cur, out);
            cur.pop();
        }
    }
}

fn gpath(root: usize, p: &[usize]) -> String {
    let mut s = format!("g{}", root);
    for i in p {
        s.push_str(&format!(".{}", i));
    }
    s
}

/// C15: (tree, same tree by another route) and (tree, single-edit mutant) pairs; iterator op mixes
pub fn gen_greeneq(seed: u64, tier: &str) -> Vec<String> {
    let mut rng = Rng::new(seed ^ 0xC15);
    let mut out = vec![];
    header(&mut out);
    let bes: Vec<&str> = backends().into_iter().filter(|b| !b.ends_with("ref")).collect();
    let n = if tier == "thorough" { 6000 } else { 500 };
    let masks: [u32; 4] = [u32::MAX, u32::MAX, 3, 0];
    for case in 0..n {
        out.push(format!("cfg mask {}", masks[case % masks.len()]));
        out.push(format!("case {}", case));
        out.push(format!("cache {}", bes[case % bes.len()]));
        let mut pool = vec![];
        let (d, w) = (1 + rng.below(4), 1 + rng.below(if case % 7 == 0 { 9 } else { 4 }));
        let t = random_tree(&mut rng, d, w, &mut pool);
        let build = |t: &RefTree, out: &mut Vec<String>, rng: &mut Rng| {
            out.push("builder c0".into());
            emit_tree(t, out, rng);
            out.push("finish".into());
        };
        build(&t, &mut out, &mut rng); // g0
        build(&t, &mut out, &mut rng); // g1: shared cache
        out.push("recache c0".into());
        build(&t, &mut out, &mut rng); // g2: fresh cache, same interner
        let m = mutate(&t, &mut rng);
        build(&m, &mut out, &mut rng); // g3: single-edit mutant
        // g4: bottom-up through GreenNode::new — rebuild one inner node, then the spine above it
        let mut nps = vec![];
        node_paths(&t, &mut vec![], &mut nps);
        let (p, _) = rng.pick(&nps).clone();
        let mut next = 4usize;
        // rebuild node at p from its own children
        let kind_at = |t: &RefTree, p: &[usize]| -> (u32, usize) {
            let mut cur = t;
            for i in p {
                if let RefTree::Node(_, cs) = cur {
                    cur = &cs[*i];
                }
            }
            match cur {
                RefTree::Node(k, cs) => (*k, cs.len()),
                RefTree::Tok(k, _) => (*k, 0),
            }
        };
        let (k, nc) = kind_at(&t, &p);
        let refs: Vec<String> = (0..nc).map(|i| { let mut q = p.clone(); q.push(i); gpath(0, &q) }).collect();
        out.push(format!("gnew {} {}", k, refs.join(" ")).trim_end().to_string());
        let mut cur_new = next;
        next += 1;
        let mut q = p.clone();
        while let Some(last) = q.pop() {
            let (k, nc) = kind_at(&t, &q);
            let refs: Vec<String> = (0..nc)
                .map(|i| if i == last { format!("g{}", cur_new) } else { let mut r = q.clone(); r.push(i); gpath(0, &r) })
                .collect();
            out.push(format!("gnew {} {}", k, refs.join(" ")));
            cur_new = next;
            next += 1;
        }
        for (a, b) in [(0, 1), (0, 2), (1, 2), (0, 3), (2, 3), (0, cur_new), (3, cur_new)] {
            out.push(format!("geq g{} g{}", a, b));
        }
        for g in [0, 1, 2, 3, cur_new] {
            out.push(format!("ghash g{}", g));
            out.push(format!("heads g{}", g));
        }
        // sub-element comparisons and token hashes
        for _ in 0..3 {
            let (p1, n1) = rng.pick(&nps).clone();
            let mut q1 = p1.clone();
            if n1 > 0 {
                q1.push(rng.below(n1));
            }
            out.push(format!("geq {} {}", gpath(0, &q1), gpath(2, &q1)));
            out.push(format!("ghash {}", gpath(0, &q1)));
            let (p2, _) = rng.pick(&nps).clone();
            out.push(format!("geq {} {}", gpath(0, &q1), gpath(1, &p2)));
        }
        // iterator op mixes
        for _ in 0..4 {
            let (p1, n1) = rng.pick(&nps).clone();
            let mut ops = vec![];
            let len = 1 + rng.below(8);
            for _ in 0..len {
                let op = match rng.below(8) {
                    0 | 1 => "next".to_string(),
                    2 => "next_back".to_string(),
                    3 => format!("nth:{}", rng.below(n1 + 2)),
                    4 => format!("nth_back:{}", rng.below(n1 + 2)),
                    5 => "len".to_string(),
                    _ => "size_hint".to_string(),
                };
                ops.push(op);
            }
            ops.push(rng.pick(&["count", "last", "fold", "rfold", "len"]).to_string());
            out.push(format!("iter {} {}", gpath(0, &p1), ops.join(" ")));
        }
    }
    // a static-text kind offered together with a text that is not its static text: a debug build refuses it (both sides panic);
    // a release build must still build the tree the kind alone gives -- same token, same lengths, same hash
    let mut case = n;
    for (k, st) in STATICS {
        for wrong in ["+ ", "", "é", "++", "abc", "é→é→"] {
            if wrong == st {
                continue;
            }
            out.push(format!("case {}", case));
            case += 1;
            out.push(format!("cache {}", bes[case % bes.len()]));
            for with_text in [true, false, true] {
                out.push("builder c0".into());
                out.push("start 0".into());
                out.push(format!("tok 10 {}", hex("1")));
                out.push("start 1".into());
                if with_text {
                    out.push(format!("tok {} {}", k, hex(wrong)));
                } else {
                    out.push(format!("stok {}", k));
                }
                out.push(format!("tok 10 {}", hex("2")));
                out.push("finish_node".into());
                out.push("finish_node".into());
                out.push("finish".into());
            }
            for (a, b) in [(0, 1), (1, 2), (0, 2)] {
                out.push(format!("geq g{} g{}", a, b));
            }
            for g in [0, 1, 2] {
                out.push(format!("ghash g{}", g));
                out.push(format!("heads g{}", g));
            }
        }
    }
    out.push(format!("cfg mask {}", u32::MAX));
    out
}

pub fn generate(what: &str, seed: u64, tier: &str) -> Vec<String> {
    match what {
        "red" => crate::gen_red::gen_red(seed, tier),
        "queries" => crate::gen_red::gen_queries(seed, tier),
        "replace" => crate::gen_red::gen_replace(seed, tier),
        "fmt" => crate::gen_red::gen_fmt(seed, tier),
        "tokens" => crate::gen_red::gen_tokens(seed, tier),
        "text" => crate::gen_red::gen_text(seed, tier),
        "serde" => crate::gen_red::gen_serde(seed, tier),
        "greeneq" => gen_greeneq(seed, tier),
        "faults" => gen_faults(seed, tier),
        "checkpoints" => gen_checkpoints(seed, tier),
        "build" => gen_build(seed, tier),
        "history" => gen_history(seed, tier),
        "intern" => gen_intern(seed, tier),
        _ => panic!("unknown generator {}", what),
    }
}
